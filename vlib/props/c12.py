"""C12  Decoding is a pure function of its arguments (engine D: interleavings and histories)."""
import itertools

from .. import impl, loader
from ..engines import sched
from ..ref import values as V
from ..runner import Acc
from . import c09

LEVEL = "model_checking"
ASSUMPTIONS = [
    "decoders are advanced one event at a time by the harness (the explorer is the scheduler); the only shared state the code has is reached by all messages of the alphabet (encrypted parameter areas of different commands, the same command twice, plain messages)",
    "within one history / schedule (cache reset at its start, never inside) results are compared with == against the first decode of the same message; across histories only normalised events and repr(object) are compared, because classes synthesized in different cache epochs are different objects by construction",
    "bounds: quick 2 decoders, <= 1 preemption (a few pairs <= 2), histories of <= 3 operations; thorough 3 decoders <= 2 preemptions, 2 decoders <= 3, histories of <= 4 operations",
]


def messages(seed):
    """the message alphabet: (label, root, bytes, cc, enc)"""
    out = []

    def cmd(ccname, variant):
        p = c09.pair(ccname, variant, seed)
        return p

    def add(label, root, b, cc=None, enc=None):
        out.append((label, root, b, cc, enc))

    sr = cmd("StirRandom", "decrypt")
    h = cmd("Hash", "decrypt+encrypt")
    gr = cmd("GetRandom", "encrypt")
    st = cmd("Startup", "plain")
    cp = cmd("CreatePrimary", "decrypt+encrypt")
    add("cmd:StirRandom(enc)", "Command", sr[0])
    add("cmd:Hash(enc)", "Command", h[0])
    add("cmd:Startup", "Command", st[0])
    add("rsp:GetRandom(enc)", "Response", gr[1], V.C()["GetRandom"]["cc"], True)
    add("rsp:Hash(enc)", "Response", h[1], V.C()["Hash"]["cc"], True)
    add("stream:Hash(enc)", "CommandResponseStream", h[0] + h[1])
    add("cmd:CreatePrimary(enc)", "Command", cp[0])
    add("stream:GetRandom(enc)+Hash(enc)", "CommandResponseStream", gr[0] + gr[1] + h[0] + h[1])
    return out


def struct_messages(seed):
    """stand-alone structures (they share whatever a top-level decode of a bare type shares): complete ones and ones
    whose strict decode stops inside a size-prefixed region (truncated / bad value)"""
    from .. import cases

    def enc(tn):
        return cases.replay_case({"kind": "struct", "root": tn, "label": tn, "k": 0, "defaults": cases.RICH}, seed, ()).b

    pt, nv, cr = enc("TPM2B_ECC_POINT"), enc("TPM2B_NV_PUBLIC"), enc("TPM2B_SENSITIVE_CREATE")
    bad = bytearray(nv)
    bad[6:8] = b"\x7f\xff"  # nameAlg out of range, inside the size-prefixed region
    return [
        ("struct:TPM2B_ECC_POINT", "TPM2B_ECC_POINT", pt, None, None),
        ("struct:TPM2B_NV_PUBLIC", "TPM2B_NV_PUBLIC", nv, None, None),
        ("struct:TPM2B_ECC_POINT(truncated)", "TPM2B_ECC_POINT", pt[:-3], None, None),
        ("struct:TPM2B_NV_PUBLIC(bad value)", "TPM2B_NV_PUBLIC", bytes(bad), None, None),
        ("struct:TPM2B_SENSITIVE_CREATE", "TPM2B_SENSITIVE_CREATE", cr, None, None),
        # one value, legal for one member of an enumeration family and illegal for a sibling type
        ("struct:TPMT_HA(SHA256)", "TPMT_HA", bytes.fromhex("000b") + bytes(32), None, None),
        ("struct:TPMT_SYM_DEF(algorithm=SHA256: not symmetric)", "TPMT_SYM_DEF", bytes.fromhex("000b0080"), None, None),
        ("struct:TPMS_ECC_PARMS curve field", "TPMI_ECC_CURVE", bytes.fromhex("0003"), None, None),
        # an illegal selector in front of a union with a fallback member
        ("struct:TPMT_RSA_SCHEME(scheme=0x7fff)", "TPMT_RSA_SCHEME", bytes.fromhex("7fff000b"), None, None),
        ("struct:TPMT_SIGNATURE(sigAlg=0x0001)", "TPMT_SIGNATURE", bytes.fromhex("0001000b"), None, None),
        # a decrypt session on a command whose first parameter is no TPM2B but a later one is (known finding F8: it
        # fails with an internal error - but it has to fail the same way every time)
        ("cmd:EncryptDecrypt(decrypt session)", "Command", encdec(seed), None, None),
    ]


def encdec(seed):
    from .. import cases

    u = {"kind": "command", "cc": "EncryptDecrypt", "label": "x", "k": 0, "defaults": cases.RICH + (("sessions:", 1),)}
    b = bytearray(cases.replay_case(u, seed, ()).b)
    # the attribute byte of the only session: handle(4) nonce(2+2) attributes(1)
    i = 10 + 4 + 4 + 4 + 4
    b[i] = 0x20
    return bytes(b)


NSTRUCT = 11


def all_messages(seed):
    return messages(seed) + struct_messages(seed)


NFRAMES = 8  # messages() ; the stand-alone structures follow


def maker(msg, strict=True):
    ns = loader.load()
    label, root, b, cc, enc = msg
    kw = {}
    if cc is not None:
        kw["command_code"] = ns.CC[cc]
    if enc:
        kw["parameter_encryption"] = True
    return lambda: ns.Binary.marshal(tpm_type=ns.TYPES[root], buffer=b, abort_on_error=strict, **kw)


def solo(msg):
    g = maker(msg)()
    evs = []
    try:
        while True:
            evs.append(next(g))
    except StopIteration as s:
        return evs, s.value, None
    except Exception as e:  # noqa: BLE001
        return evs, None, e


def norm(evs):
    return [impl.norm_ev(e) for e in evs]


def units(tier, seed):
    n = 6 if tier == "quick" else 8
    idx = list(range(n)) + list(range(NFRAMES, NFRAMES + 5))  # schedules: the first five structure messages
    us = [{"kind": "sweep", "label": "sweep:all-encrypted-kinds", "seed": seed, "tier": tier}]
    for a, b in itertools.product(idx, repeat=2):
        if (a >= NFRAMES) != (b >= NFRAMES) and tier == "quick":
            continue  # quick: frames with frames, structures with structures
        us.append({"kind": "sched", "label": f"sched:{a},{b}", "msgs": [a, b], "p": 1 if tier == "quick" else 3 if (a < 2 and b < 2) else 2, "seed": seed})
    if tier == "quick":
        us.append({"kind": "sched", "label": "sched:0,1/p2", "msgs": [0, 1], "p": 2, "seed": seed})
        us.append({"kind": "sched", "label": "sched:0,1,0/p1", "msgs": [0, 1, 0], "p": 1, "seed": seed})
    else:
        for t in ((0, 1, 0), (0, 1, 3), (3, 4, 5), (0, 2, 1), (1, 1, 1)):
            us.append({"kind": "sched", "label": f"sched:{t}/p2", "msgs": list(t), "p": 2, "seed": seed})
    # first-use order: every ordered pair of messages as the history [A, B, A] (strict and warn) in a FRESH interpreter
    allm = NFRAMES + NSTRUCT
    for a in range(allm):
        us.append({"kind": "fresh", "label": f"fresh:{a}", "a": a, "n": allm, "seed": seed, "tier": tier})
    depth = 3 if tier == "quick" else 4
    ops = op_names(n)
    for first in ops:
        us.append({"kind": "hist", "label": f"hist:{first}", "first": first, "depth": depth, "n": n, "seed": seed})
    return us


def op_names(n):
    ops = [f"decode:{i}" for i in range(n)]
    ops += [f"e2o:{i}" for i in (0, 3, 5)] + [f"o2e:{i}" for i in (0, 3)] + [f"canon:{i}" for i in (1,)] + [f"warn:{i}" for i in (1, 4)]
    ops += [f"decode:{i}" for i in range(NFRAMES, NFRAMES + 5)] + [f"abandon:{i}" for i in (1, NFRAMES + 1)]
    ops += [f"warn:{i}" for i in (NFRAMES + 6, NFRAMES + 8, NFRAMES + 9)] + [f"decode:{NFRAMES + 10}"]
    return ops


def do_op(op, msgs):
    """-> (normalised result for cross-history comparison, raw result for == inside a history)"""
    from tpmstream.common.canonical import Canonical
    from tpmstream.common.object import events_to_obj, events_to_objs, obj_to_events

    ns = loader.load()
    kind, i = op.split(":")
    msg = msgs[int(i)]
    label, root, b, cc, enc = msg
    if kind == "decode":
        evs, obj, err = solo(msg)
        return (norm(evs), repr(obj), None if err is None else impl.norm_err(err)), (evs, obj)
    if kind == "abandon":
        g = maker(msg)()
        n_ev = max(1, len(solo(msg)[0]) // 2)
        evs = [next(g) for _ in range(n_ev)]
        del g  # the caller loses interest: the generator is dropped in the middle of the value
        return (norm(evs),), (evs,)
    if kind == "warn":
        g = maker(msg, strict=False)()
        evs, err = [], None
        try:
            for e in g:
                evs.append(e)
        except Exception as e:  # noqa: BLE001
            err = impl.norm_err(e)
        ns_ = loader.load()
        # warnings wrap exception objects, which never compare equal: == is applied to the field events only
        return (norm(evs), err), ([e for e in evs if isinstance(e, ns_.MarshalEvent)],)
    evs, obj, err = solo(msg)
    if kind == "e2o":
        if root == "CommandResponseStream":
            o = list(events_to_objs(evs))
        else:
            o = events_to_obj(evs, **({"command_code": ns.CC[cc]} if cc is not None else {}))
        return (repr(o),), (o, obj if root != "CommandResponseStream" else o)
    if kind == "o2e":
        e2 = list(obj_to_events(obj))
        return (norm(e2),), (e2, evs)
    if kind == "canon":
        c = Canonical(b, format_in=ns.Binary, tpm_type=ns.TYPES[root])
        return (norm(c.events), repr(c.object)), (list(c.events), c.object)
    raise ValueError(op)


_global = {}


def global_baseline(op, msgs):
    if op not in _global:
        loader.cache_clear()
        _global[op] = do_op(op, msgs)[0]
    return _global[op]


def fresh_main(a, seed):
    """runs in a fresh interpreter (one per first message A): for every B the history would need its own process to be
    exact; instead this process decodes A first (so A is the first use of everything it touches), then for every B:
    B, A again - and a second kind of process (a == -1) decodes every message once in reverse order.  Prints the
    normalised results as json."""
    import json
    import sys

    loader.load()
    msgs = all_messages(seed)

    def both(m):
        out = []
        for strict in (True, False):
            g = maker(m, strict=strict)()
            evs, err = [], None
            try:
                for e in g:
                    evs.append(e)
            except Exception as e:  # noqa: BLE001
                err = impl.norm_err(e)
            out.append([norm(evs), err])
        return out

    res = {}
    order = [a] + [b for b in range(len(msgs)) if b != a] if a >= 0 else list(range(len(msgs) - 1, -1, -1))
    for i in order:
        res.setdefault(str(i), []).append(both(msgs[i]))
        if a >= 0 and i != a:
            res[str(a)].append(both(msgs[a]))
    json.dump(res, sys.stdout, default=str)


def fresh_unit(acc, unit):
    import json
    import os
    import subprocess
    import sys

    root = os.path.dirname(os.path.dirname(os.path.dirname(os.path.abspath(__file__))))
    outs = {}
    for a in (unit["a"], -1) if unit["a"] == 0 else (unit["a"],):
        r = subprocess.run([sys.executable, "-c", f"from vlib.props import c12; c12.fresh_main({a}, {unit['seed']})"], cwd=root, capture_output=True, text=True, timeout=900)
        if r.returncode != 0:
            acc.violation({"clause": "harness-error", "what": "fresh-subprocess"}, {"harness": "fresh", "a": a}, r.stderr[-400:])
            return acc
        outs[a] = json.loads(r.stdout)
    labels = [m[0] for m in all_messages(unit["seed"])]
    # the reference for every message: what THIS (pool) process gets; all processes and all positions must agree
    msgs = all_messages(unit["seed"])
    for a, res in outs.items():
        for k, runs in res.items():
            i = int(k)
            loader.cache_clear()
            want = []
            for strict in (True, False):
                g = maker(msgs[i], strict=strict)()
                evs, err = [], None
                try:
                    for e in g:
                        evs.append(e)
                except Exception as e:  # noqa: BLE001
                    err = impl.norm_err(e)
                want.append([norm(evs), err])
            want = json.loads(json.dumps(want, default=str))
            for pos, got in enumerate(runs):
                acc.count("evaluations")
                acc.count("transitions")
                if got != want:
                    mode = "strict" if got[0] != want[0] else "warn"
                    acc.violation({"clause": "fresh:depends-on-first-use-order", "mode": mode}, {"harness": "fresh", "a": a, "message": labels[i], "occurrence": pos}, f"{labels[i]} decoded in a fresh interpreter whose first message was {labels[a] if a >= 0 else 'the last of the alphabet (reverse order)'} (occurrence {pos}) differs in {mode} mode from the same decode in another process: {str(got[0 if mode == 'strict' else 1][1])[:160]} vs {str(want[0 if mode == 'strict' else 1][1])[:160]}", size=pos)
        acc.count("states", len(res))
        acc.count("histories")
        acc.shape(("fresh", a))
    acc.sample({"unit": unit["label"], "first_message": labels[unit["a"]], "history": "A, then for every other message B: B, A (strict and warn), in a fresh interpreter"}, cap=1)
    return acc


def sweep(acc, unit):
    """every encrypted-parameter kind the tables allow (commands with a decrypt session, responses decoded with the
    encryption flag), decoded in order, then all of them again (and in reverse): every later result must equal the first
    one.  Exposes any bound on the number of synthesized types that can be alive at once."""
    seed = unit["seed"]
    kinds = []
    for ccname in sorted(V.C()):
        p = c09.pair(ccname, "decrypt", seed)
        if p:
            kinds.append(("cmd:" + ccname, "Command", p[0], None, None))
        p = c09.pair(ccname, "encrypt", seed)
        if p:
            kinds.append(("rsp:" + ccname, "Response", p[1], V.C()[ccname]["cc"], True))
    loader.cache_clear()
    first = [solo(m) for m in kinds]
    acc.count("states", len(kinds))
    for name, order in (("again", range(len(kinds))), ("reverse", range(len(kinds) - 1, -1, -1))):
        for i in order:
            acc.count("evaluations")
            acc.count("transitions")
            evs, obj, err = solo(kinds[i])
            f_evs, f_obj, f_err = first[i]
            if (err is None) != (f_err is None) or norm(evs) != norm(f_evs):
                acc.violation({"clause": "sweep:result-differs"}, {"harness": "sweep", "kind": kinds[i][0], "pass": name}, f"{kinds[i][0]}: the {name} pass gives a different result")
            elif evs != f_evs or not (obj == f_obj):
                acc.violation({"clause": "sweep:result-not-equal"}, {"harness": "sweep", "kind": kinds[i][0], "pass": name, "kinds": len(kinds)}, f"{kinds[i][0]}: decoded again after {len(kinds)} encrypted-parameter kinds, events / object compare unequal to the first decode (a new layout type was synthesized)", size=i)
    acc.count("sweep_kinds", len(kinds))
    acc.count("histories")
    acc.shape(("sweep", len(kinds)))
    acc.sample({"unit": unit["label"], "encrypted_kinds": len(kinds), "passes": ["first", "again", "reverse"]}, cap=1)
    return acc


def run_unit(unit):
    acc = Acc()
    loader.load()
    msgs = all_messages(unit["seed"])
    if unit["kind"] == "sweep":
        return sweep(acc, unit)
    if unit["kind"] == "fresh":
        return fresh_unit(acc, unit)
    if unit["kind"] == "sched":
        sel = [msgs[i] for i in unit["msgs"]]
        labels = [m[0] for m in sel]
        loader.cache_clear()
        lens = [len(solo(m)[0]) + 1 for m in sel]
        scheds = sched.schedules(lens, unit["p"])
        acc.count("schedules", len(scheds))
        outcomes = set()
        for s, pre in scheds:
            acc.count("evaluations")
            acc.mx("max_preemptions", pre)

            def once():
                loader.cache_clear()
                base = [solo(m) for m in sel]  # first decode of each message in this history
                outs, rets, errs, done, steps = sched.run_schedule([maker(m) for m in sel], s)
                bad = []
                for i in range(len(sel)):
                    e_i = None if errs[i] is None else impl.norm_err(errs[i])
                    e_b = None if base[i][2] is None else impl.norm_err(base[i][2])
                    if e_i != e_b:
                        bad.append((i, "outcome-differs", f"interleaved: {e_i}, solo: {e_b}"))
                    elif norm(outs[i]) != norm(base[i][0]):
                        bad.append((i, "events-differ", "normalised events of the interleaved decode differ from the solo decode"))
                    elif outs[i] != base[i][0]:
                        k = next(j for j, (x, y) in enumerate(zip(outs[i], base[i][0])) if x != y)
                        bad.append((i, "events-not-equal", f"event {k} {impl.norm_ev(outs[i][k])[:3]} compares unequal to the solo decode's (different synthesized type object)"))
                    elif not (rets[i] == base[i][1]):
                        bad.append((i, "object-not-equal", "returned object != the solo decode's object"))
                return bad, steps

            bad, steps = once()
            acc.count("transitions", steps)
            outcomes.add(tuple((i, w) for i, w, _ in bad))
            if bad:
                bad2, _ = once()  # determinism: a failing schedule must fail identically when replayed
                if [(i, w) for i, w, _ in bad2] != [(i, w) for i, w, _ in bad]:
                    acc.violation({"clause": "nondeterministic-schedule"}, {"harness": "sched", "messages": unit["msgs"], "schedule": list(s)}, f"{bad} then {bad2}")
                i, what, detail = bad[0]
                acc.violation(
                    {"clause": "interleaving:" + what, "decoders": len(sel), "same_message": len(set(unit["msgs"])) < len(unit["msgs"])},
                    {"harness": "sched", "messages": unit["msgs"], "labels": labels, "schedule": list(s), "preemptions": pre},
                    f"decoder {i} ({labels[i]}): {detail}",
                    size=pre * 1000 + len(s),
                )
        acc.count("states", sum(len(s) for s, _ in scheds) + 1)
        acc.shape(("sched", tuple(unit["msgs"]), unit["p"], len(scheds)))
        for s, _ in scheds[:400]:
            acc.shape(("s", tuple(unit["msgs"]), s))
        acc.count("distinct_outcomes", len(outcomes))
        acc.sample({"unit": unit["label"], "decoders": labels, "steps": lens, "preemption_bound": unit["p"], "schedules": len(scheds), "example_schedule": "".join(map(str, scheds[min(1, len(scheds) - 1)][0]))}, cap=2)
    else:
        ops = op_names(unit["n"])
        for L in range(1, unit["depth"] + 1):
            for tail in itertools.product(ops, repeat=L - 1):
                hist = (unit["first"],) + tail
                acc.count("evaluations")
                acc.count("histories")
                acc.count("states")
                loader.cache_clear()
                first = {}
                for j, op in enumerate(hist):
                    acc.count("transitions")
                    try:
                        n_res, raw = do_op(op, msgs)
                    except Exception as e:  # noqa: BLE001
                        acc.violation({"clause": "history:raises", "op": op.split(":")[0], "exc": type(e).__name__}, {"harness": "hist", "history": list(hist)}, f"{op} raised {type(e).__name__}: {e}", size=len(hist))
                        break
                    gb = global_baseline(op, msgs) if False else None
                    if op in first:
                        fn, fr = first[op]
                        if n_res != fn:
                            acc.violation({"clause": "history:result-differs", "op": op.split(":")[0]}, {"harness": "hist", "history": list(hist), "position": j}, f"{op} at position {j} differs (normalised) from its first execution in the same history", size=len(hist))
                        elif not (raw == fr):
                            acc.violation({"clause": "history:result-not-equal", "op": op.split(":")[0]}, {"harness": "hist", "history": list(hist), "position": j}, f"{op} at position {j} compares unequal to its first execution in the same history {hist}", size=len(hist))
                    else:
                        first[op] = (n_res, raw)
                    # internal consistency of the conversion ops: converted == decoded within the same history
                    kind = op.split(":")[0]
                    if kind in ("e2o", "o2e") and not (raw[0] == raw[1]):
                        acc.violation({"clause": "history:conversion-not-equal", "op": kind}, {"harness": "hist", "history": list(hist), "position": j}, f"{op} at position {j} of {hist}: converted value != decoded value", size=len(hist))
                    # cross-history: normalised results never change
                    key = ("norm", op)
                    if key not in _global:
                        _global[key] = n_res
                    elif _global[key] != n_res:
                        acc.violation({"clause": "history:depends-on-history", "op": kind}, {"harness": "hist", "history": list(hist), "position": j}, f"{op} gives a different normalised result after {hist[:j]}", size=len(hist))
                if L == unit["depth"]:
                    acc.shape(hist)
        acc.sample({"unit": unit["label"], "operations": ops, "depth": unit["depth"], "example_history": [unit["first"], ops[1], unit["first"]]}, cap=1)
    return acc


def finish(acc, tier, seed):
    n = acc.n["evaluations"]
    if acc.n["schedules"] == 0 or acc.n["histories"] == 0:
        acc.violation({"clause": "vacuous"}, {"harness": "finish"}, "no schedule / history explored")
    return {
        "states": acc.n["states"],
        "transitions": acc.n["transitions"],
        "traces_validated_against_impl": n,
        "evaluations": n,
        "distinct_nontrivial": len(acc.shapes),
        "schedules": acc.n["schedules"],
        "histories": acc.n["histories"],
        "max_preemptions": acc.maxes.get("max_preemptions"),
        "rule": "schedules: every interleaving of the step-wise decoders with at most p preemptions, run to completion on the real generators (transitions = events stepped); histories: every sequence of <= h operations (decode / warn decode / events_to_obj(s) / obj_to_events / Canonical) over the message alphabet; distinct = distinct schedules (first 400 per unit) / histories of full depth",
        "message_alphabet": [m[0] for m in all_messages(seed)],
        "sweep_kinds": acc.n["sweep_kinds"],
        "exhaustive": True,
    }


def replay(case):
    acc = Acc()
    loader.load()
    if case.get("harness") == "fresh":
        u = {"kind": "fresh", "label": "replay", "a": max(0, case.get("a", 0)), "n": 0, "seed": 0, "tier": "quick"}
    elif case.get("harness") == "sweep":
        u = {"kind": "sweep", "label": "replay", "seed": 0, "tier": "quick"}
    elif case.get("harness") == "sched":
        u = {"kind": "sched", "label": "replay", "msgs": case["messages"], "p": case.get("preemptions", 2), "seed": 0}
    else:
        h = case["history"]
        u = {"kind": "hist", "label": "replay", "first": h[0], "depth": min(len(h), 3), "n": 8, "seed": 0}
    acc = run_unit(u)
    return [(v["fp"], v["case"], v["detail"]) for v in acc.viol.values()]
