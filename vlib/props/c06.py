"""C06  Decoding arbitrary bytes terminates with a documented outcome (fault enumeration + cross-type closure; no model needed)."""
from .. import bscope, cases, faults, faultspace, impl, loader, oracle
from ..ref import values as V
from ..runner import Acc

LEVEL = "fault_enumeration"
ASSUMPTIONS = [
    "documented outcomes: completion, ConstraintViolatedError subclasses, InputStreamBytesDepletedError, InputStreamSuperfluousBytesError",
    "termination is checked by a bound on events per input byte and by counting the bytes pulled from the source (a per-unit wall-clock limit backs it up)",
    "a Response is only decoded with a command code of the table (the command line refuses a response without its command, C19)",
]


B_STRICT = ('escape', 'outside-escape', 'pulled')
B_WARN = ()


def units(tier, seed):
    us = cases.fault_units(tier, seed, with_prims=True, thorough_budget=25, two_pairs_all=False)
    for u in us:
        u["seed"], u["tier"], u["mode"] = seed, tier, "mutate"
        if tier == "quick" and u["kind"] != "struct":
            u["subst_alphabet"] = (0x00, 0x01, 0x20, 0x40, 0x80, 0xFF)
        if tier == "thorough" and u["kind"] != "struct":
            u["subst_base_only"] = True  # frames: all ten substitute bytes on the default base case; deviated cases get cuts / suffixes / flags
    structs, prims = cases.struct_roots()
    targets = structs + prims + ["Command", "CommandResponseStream"]
    for t in targets:
        us.append({"kind": "cross", "mode": "cross", "target": t, "label": "as:" + t, "seed": seed, "tier": tier})
    ccs = sorted(V.C())
    step = 8 if tier == "quick" else 1
    for i in range(0, len(ccs), step):
        us.append({"kind": "cross", "mode": "cross-response", "ccs": ccs[i : i + step], "label": "as:Response/" + ccs[i], "seed": seed, "tier": tier})
    us += bscope.units(tier, seed)
    return us


def msg_head(m):
    """first words of an exception message without the parts that vary with the input"""
    import re

    return re.sub(r"[0-9]+", "N", str(m or ""))[:44]


def judge(acc, root, m, cc, enc, d, tag):
    loader.cache_clear()
    r = impl.run(root, m, cc=cc, enc=enc, strict=True)
    acc.count("evaluations")
    acc.count("outcome:" + (r.kind if not r.kind.startswith("ESCAPE") else "ESCAPE"))
    acc.shape((root if tag == "cross" else oracle.rootclass(root), r.kind, oracle.path_shape(r.details.get("cpath") or r.details.get("path")) if isinstance(r.details, dict) else None))
    if r.kind.startswith("ESCAPE") or r.kind == "GUARD":
        fp = {"clause": "undocumented-outcome", "exc": r.kind, "where": r.details.get("where"), "msg": msg_head(r.details.get("msg")), "root": oracle.rootclass(root)}
        if r.details.get("where") in ("encrypted", "process_response") or fp["msg"].startswith(("Parameter encryption failed", "Started parsing Response")):
            ctx = oracle.enc_context(r.events, root, enc, cc)
            fp["requested"] = ctx["requested"]
            fp["area_can_encrypt"] = ctx["area_can_encrypt"]
            fp["failed_response"] = ctx["failed_response"]
            fp["inconsistent"] = ctx["requested"] != ctx["response_sessions_encrypt"]
        acc.violation(fp, d(), f"strict decoding as {root} raised {r.kind} in {r.details.get('where')}: {r.details.get('msg')}", size=len(m))
    elif r.kind not in oracle.DOCUMENTED:
        acc.violation({"clause": "undocumented-outcome", "exc": r.kind, "root": oracle.rootclass(root)}, d(), f"{r.kind}", size=len(m))
    if r.pulled is not None and r.pulled > len(m):
        acc.violation({"clause": "pulled-more-than-available", "root": oracle.rootclass(root)}, d(), f"pulled {r.pulled} of {len(m)}", size=len(m))
    return r


_defaults_cache = {}


def default_encodings(seed):
    """the minimal and rich default encodings of every root / frame variant (the corpus of the cross-type closure)"""
    if seed not in _defaults_cache:
        out = []
        for u in cases.fault_units("quick", seed, k=0):
            if u["variant"] in ("sess0", "sess4", "decrypt-pw", "failed-flag", "two-pairs", "pair-enc", "sess2"):
                continue  # the cross-type closure uses the basic variants of every root / frame
            c = cases.replay_case(u, seed, ())
            out.append((u["label"], c))
        _defaults_cache[seed] = out
    return _defaults_cache[seed]


def run_unit(unit):
    if unit["kind"] == "bscope":
        return bscope.run_b_unit(unit, strict_own=B_STRICT, warn_props=B_WARN)
    acc = Acc()
    loader.load()
    seed = unit["seed"]
    if unit["mode"] == "mutate":
        def on_case(case):
            acc.count("base_cases")
            fams = ["subst", "length"]
            ref0 = None
            if unit["tier"] == "thorough" or unit["kind"] == "struct":
                # every member / boundary value of every constrained field (selectors reach every union arm)
                from ..ref.decode import decode

                fams.append("value")
                ref0 = decode(case.root, case.b, cc=case.cc, enc=case.enc)
            for fam in fams:
                for m, f in faultspace.FAMILIES[fam](case, ref0, dict(unit, tier="quick") if fam == "value" else unit):
                    acc.count("family:" + f["fault"])
                    judge(acc, case.root, m, case.cc, case.enc, lambda: dict(case.desc(), harness="arbitrary", input=m.hex(), fault=f), "mutate")
                    if unit["tier"] == "thorough" and f["fault"] == "subst" and len(m) <= 40:
                        for cut in range(f["at"] + 1, len(m)):
                            acc.count("family:subst+cut")
                            judge(acc, case.root, m[:cut], case.cc, case.enc, lambda: dict(case.desc(), harness="arbitrary", input=m[:cut].hex(), fault=dict(f, cut=cut)), "mutate")
            # the other flag / another command code for responses
            if case.root == "Response":
                for enc in (False, True):
                    if bool(case.enc) != enc:
                        acc.count("family:flag")
                        judge(acc, "Response", case.b, case.cc, enc, lambda: dict(case.desc(), harness="arbitrary", enc=enc, fault={"fault": "flag"}), "mutate")

        cases.explore_unit(unit, seed, on_case, acc)
        c = cases.replay_case(unit, seed, ())
        acc.sample({"unit": unit["label"], "base_input": c.b.hex()[:80], "families": ["subst", "length", "flag"]}, cap=2)
    elif unit["mode"] == "cross":
        t = unit["target"]
        n = 0
        for label, c in default_encodings(seed):
            if c.root == t and t != "Command":
                continue
            n += 1
            acc.count("family:cross")
            judge(acc, t, c.b, None, None, lambda: {"harness": "arbitrary", "root": t, "cc": None, "enc": False, "input": c.b.hex(), "fault": {"fault": "cross", "encoding_of": label}}, "cross")
            if label.endswith("/min") and len(c.b) <= 12 and t not in ("Command", "CommandResponseStream"):
                # the encryption flag is an argument of the API for every type
                acc.count("family:cross-flag")
                judge(acc, t, c.b, None, True, lambda: {"harness": "arbitrary", "root": t, "cc": None, "enc": True, "input": c.b.hex(), "fault": {"fault": "cross-flag", "encoding_of": label}}, "cross")
        acc.sample({"unit": unit["label"], "inputs": n, "what": "default encodings of all other roots decoded as " + t}, cap=1)
    else:
        corpus = [(l, c) for l, c in default_encodings(seed) if c.root in ("Response", "Command") or unit["tier"] == "thorough"]
        for ccname in unit["ccs"]:
            ccnum = V.C()[ccname]["cc"]
            for label, c in corpus:
                for enc in (False, True):
                    acc.count("family:cross-response")
                    judge(acc, "Response", c.b, ccnum, enc, lambda: {"harness": "arbitrary", "root": "Response", "cc": ccnum, "enc": enc, "input": c.b.hex(), "fault": {"fault": "cross", "encoding_of": label}}, "cross")
        acc.sample({"unit": unit["label"], "what": "default encodings of all responses/commands decoded as Response(cc, flag) for " + ",".join(unit["ccs"])}, cap=1)
    return acc


def finish(acc, tier, seed):
    for k in ("Done", "Value", "Anticipated", "Exceeded", "Subceeded", "Depleted", "Superfluous"):
        if acc.n["outcome:" + k] == 0:
            acc.violation({"clause": "vacuous", "missing": k}, {"harness": "finish"}, f"no input ended in {k}")
    return {
        "evaluations": acc.n["evaluations"],
        "distinct_nontrivial": len(acc.shapes),
        "rule": "byte-substitution closure (every offset x substitute alphabet) and every cut / suffix of every base case, both encryption flags for responses (thorough: every cut after every substitution for messages <= 40 bytes, pairs of substitutions); cross-type closure: every default encoding decoded as every non-union type, as Command, as a stream and as Response(cc, flag) for every command code; distinct = distinct (root, outcome, path shape)",
        "outcomes": {k[8:]: v for k, v in acc.n.items() if str(k).startswith("outcome:")},
        "faults_by_family": {k[7:]: v for k, v in acc.n.items() if str(k).startswith("family:")},
        "base_cases": acc.n["base_cases"],
        "caps_hit": acc.n["caps_hit"],
        "exhaustive": acc.n["caps_hit"] == 0,
    }


def replay(case):
    if case.get("harness") == "bytestep":
        return bscope.replay(case, strict_own=B_STRICT, warn_props=B_WARN)
    acc = Acc()
    loader.load()
    judge(acc, case["root"], bytes.fromhex(case["input"]), case.get("cc"), case.get("enc"), lambda: case, "replay")
    return [(v["fp"], v["case"], v["detail"]) for v in acc.viol.values()]
