"""C18  Response codes are classified and named by the TPM 2.0 format rules (engine E, exhaustive)."""
import json
import os
import re

from .. import loader
from ..runner import Acc

LEVEL = "exploration"
ASSUMPTIONS = [
    "name tables: vlib/pinned/tpm_rc.json, transcribed from TPM 2.0 Part 2 section 6.6.3, independent of the tree",
    "a number without a name in the tables is shown as 'None' (pinned from the implementation; the statement is silent)",
    "domain: all low-12-bit values with bit 7 or bit 8 set, plus zero; each with no reserved high bit, each single reserved bit 12..31 (thorough: all; quick: bits 12, 16, 31) and all of them set",
]
ANSI = re.compile(r"\x1b\[[0-9;]*m")
_T = None


def tables():
    global _T
    if _T is None:
        with open(os.path.join(os.path.dirname(__file__), "..", "pinned", "tpm_rc.json")) as f:
            d = json.load(f)
        _T = {k: {int(a, 16): b for a, b in d[k].items()} for k in ("ver1", "fmt1", "warn")}
    return _T


def expect(v):
    """-> (text, class, number N or None, name)"""
    t = tables()
    if v == 0:
        return "TPM_RC.SUCCESS", "success", None, "SUCCESS"
    if v & 0x80:
        name = t["fmt1"].get(v & 0x3F, "None")
        if v & 0x40:
            n = (v >> 8) & 0xF
            return f"TPM_RC.{name} (Parameter No. {n})", "parameter", n, name
        if v & 0x800:
            n = (v >> 8) & 0x7
            return f"TPM_RC.{name} (Session No. {n})", "session", n, name
        n = (v >> 8) & 0x7
        return f"TPM_RC.{name} (Handle No. {n})", "handle", n, name
    if v & 0x400:
        return "TPM_RC.UNKNOWN (Vendor-defined)", "vendor", None, None
    if v & 0x800:
        name = t["warn"].get(v & 0x7F, "None")
        return "TPM_RC." + name, "warning", None, name
    name = t["ver1"].get(v & 0x7F, "None")
    return "TPM_RC." + name, "error", None, name


def units(tier, seed):
    return [{"kind": "lows", "label": f"low:{i:#x}", "lo": i, "hi": i + 256, "tier": tier} for i in range(0, 4096, 256)]


def check_code(acc, v):
    ns = loader.load()
    T = ns.TYPES["TPM_RC"]
    case = {"harness": "rc", "value": v}
    txt, cls, n, name = expect(v)
    high = "none" if v < 0x1000 else "all" if v >> 12 == 0xFFFFF else "one"
    try:
        x = T(v)
        s, f = str(x), format(x)
    except Exception as e:  # noqa: BLE001
        acc.violation({"clause": "raises", "class": cls, "exc": type(e).__name__}, case, f"TPM_RC({v:#x}): {type(e).__name__}: {e}")
        return
    if s != txt:
        acc.violation({"clause": "text", "class": cls, "high": high, "named": name not in (None, "None")}, case, f"str(TPM_RC({v:#x})) = {s!r}, the format rules give {txt!r}")
    # the same code built from typed integers (what the object API and re-wrapping produce)
    for how, mk in (("UINT32", lambda: T(ns.TYPES["UINT32"](v))), ("TPM_RC", lambda: T(T(v)))):
        try:
            y = mk()
            if str(y) != txt or format(y) != txt or len(list(y.attributes())) != len(list(x.attributes())):
                acc.violation({"clause": "text-of-typed-construction", "class": cls, "via": how}, case, f"TPM_RC({how}({v:#x})): str = {str(y)!r}, {len(list(y.attributes()))} bit rows; expected {txt!r}, {len(list(x.attributes()))} rows")
        except Exception as e:  # noqa: BLE001
            acc.violation({"clause": "typed-construction-raises", "class": cls, "via": how, "exc": type(e).__name__}, case, f"TPM_RC({how}({v:#x})): {type(e).__name__}: {e}")
    if f != txt:
        acc.violation({"clause": "format", "class": cls, "high": high}, case, f"format(TPM_RC({v:#x})) = {f!r}, the format rules give {txt!r}")
    if int(x) != v or x.to_bytes() != v.to_bytes(4, "big"):
        acc.violation({"clause": "value", "class": cls}, case, f"int / to_bytes of TPM_RC({v:#x})")
    ev = ns.MarshalEvent(ns.Path(ns.PathNode("")) / ns.PathNode("responseCode"), T, x)
    try:
        from ..impl import bit_rows

        rows = [ANSI.sub("", r) for r in bit_rows(ev)]
    except Exception as e:  # noqa: BLE001
        acc.violation({"clause": "rows-raise", "class": cls, "exc": type(e).__name__}, case, f"bit rows of {v:#x}: {type(e).__name__}: {e}")
        return
    if v == 0:
        if rows:
            acc.violation({"clause": "rows-for-success"}, case, f"{rows}")
        return
    over = ["."] * 32
    parsed = {}
    for r in rows:
        toks = r.split()
        nm = next((t for t in toks if t.startswith(".") and len(t) > 1 and not set(t) <= set(".01")), None)
        i = next((k for k, t in enumerate(toks) if len(t) == 32 and set(t) <= set("01.")), None)
        if nm is None or i is None:
            acc.violation({"clause": "row-format", "class": cls}, case, f"row {r!r}")
            continue
        bits, details = toks[i], " ".join(toks[i + 1 :])
        if nm[1:] in parsed:
            acc.violation({"clause": "row-twice", "class": cls, "row": nm[1:]}, case, f"row {nm} shown twice for {v:#x}")
        parsed[nm[1:]] = (bits, details)
        for k, c in enumerate(bits):
            if c != ".":
                if over[k] != ".":
                    acc.violation({"clause": "bit-twice", "class": cls, "high": high}, case, f"bit {31 - k} of {v:#x} shown twice")
                over[k] = c
    if "".join(over) != format(v, "032b"):
        acc.violation({"clause": "overlay", "class": cls, "high": high}, case, f"rows of {v:#x} overlay to {''.join(over)}, value is {v:032b}")
    # the rows carry the same classification
    def field(nm):
        b = parsed.get(nm)
        if b is None:
            return None
        s_ = b[0].replace(".", "")
        return (int(s_, 2) if s_ else None), b[1]

    want_row = {"parameter": "parameterNumber", "session": "sessionNumber", "handle": "handleNumber", "vendor": "vendorDefined", "warning": "severity", "error": "severity"}[cls]
    got = field(want_row)
    if got is None:
        acc.violation({"clause": "rows-class", "class": cls, "missing": want_row}, case, f"{v:#x} is a {cls} code but has no {want_row} row: {sorted(parsed)}")
        return
    if cls in ("parameter", "session", "handle"):
        if got[0] != n or str(n) not in got[1] or {"parameter": "Parameter", "session": "Session", "handle": "Handle"}[cls] not in got[1]:
            acc.violation({"clause": "rows-number", "class": cls}, case, f"{v:#x}: row {want_row} = {got}, expected number {n}")
        fmt = field("format")
        if not fmt or fmt[0] != 1:
            acc.violation({"clause": "rows-format-bit", "class": cls}, case, f"{v:#x}: format row {fmt}")
        others = [r for r in ("parameterNumber", "sessionNumber", "handleNumber") if r != want_row and r in parsed]
        if others:
            acc.violation({"clause": "rows-class-ambiguous", "class": cls}, case, f"{v:#x}: also has rows {others}")
        code = field("code")
        if not code or code[0] != (v & 0x3F) or (name != "None" and not code[1].startswith(name + ":")):
            acc.violation({"clause": "rows-code", "class": cls, "named": name != "None"}, case, f"{v:#x}: code row {code}, expected number {v & 0x3f:#x} name {name}")
    else:
        fmt = field("format")
        if not fmt or fmt[0] != 0:
            acc.violation({"clause": "rows-format-bit", "class": cls}, case, f"{v:#x}: format row {fmt}")
        vd = field("vendorDefined")
        if not vd or vd[0] != (1 if cls == "vendor" else 0):
            acc.violation({"clause": "rows-vendor-bit", "class": cls}, case, f"{v:#x}: vendorDefined row {vd}")
        if cls != "vendor":
            sev = field("severity")
            if not sev or sev[0] != (1 if cls == "warning" else 0) or ("Warning" if cls == "warning" else "Error") not in sev[1]:
                acc.violation({"clause": "rows-severity", "class": cls}, case, f"{v:#x}: severity row {sev}")
            code = field("code")
            if not code or code[0] != (v & 0x7F) or (name != "None" and not code[1].startswith(name + ":")):
                acc.violation({"clause": "rows-code", "class": cls, "named": name != "None"}, case, f"{v:#x}: code row {code}, expected number {v & 0x7f:#x} name {name}")


def highs(tier):
    hs = [0, 0xFFFFF000]
    bits = range(12, 32) if tier == "thorough" else (12, 16, 31)
    return hs + [1 << b for b in bits]


def run_unit(unit):
    acc = Acc()
    loader.load()
    for low in range(unit["lo"], unit["hi"]):
        if low and not (low & 0x180):
            continue
        for h in highs(unit["tier"]):
            if low == 0 and h:
                continue
            v = low | h
            acc.count("evaluations")
            check_code(acc, v)
            cls = expect(v)[1]
            acc.count("class:" + cls)
            acc.shape((cls, low, h != 0))
    acc.sample({"unit": unit["label"], "example": hex(unit["lo"] | 0x80), "expected_text": expect(unit["lo"] | 0x80)[0]}, cap=3)
    return acc


def finish(acc, tier, seed):
    for c in ("success", "parameter", "session", "handle", "vendor", "warning", "error"):
        if acc.n["class:" + c] == 0:
            acc.violation({"clause": "vacuous", "missing": c}, {"harness": "finish"}, f"no code of class {c}")
    return {
        "evaluations": acc.n["evaluations"],
        "distinct_nontrivial": len(acc.shapes),
        "rule": "every low-12-bit value with bit 7 or bit 8 set, plus zero, alone, with each chosen single reserved bit and with all reserved bits; distinct = distinct (class, low 12 bits, reserved bits present)",
        "classes": {k[6:]: v for k, v in acc.n.items() if str(k).startswith("class:")},
        "exhaustive": True,
    }


def replay(case):
    acc = Acc()
    loader.load()
    check_code(acc, case["value"])
    return [(v["fp"], v["case"], v["detail"]) for v in acc.viol.values()]
