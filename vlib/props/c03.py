"""C03  Strict mode accepts an input only if every size field is exact; earliest decidable error (fault enumeration)."""
from .. import bscope, cases, faultspace

LEVEL = "fault_enumeration"
OWN = {"escape", "outcome", "details", "events", "pulled"}
ASSUMPTIONS = [
    "the strict reference decoder (vlib/ref/decode.py, DESIGN 4.2 with disambiguations D1-D4) states which error is the earliest decidable one",
    "base cases: every root in a minimal and a rich variant, every command code as command / response / stream in several session configurations (quick: 0 deviations, thorough: <= 1)",
    "inputs on which the reference says the statement does not apply (encryption requested where no TPM2B parameter exists) are counted, not judged (C06 judges them)",
]


B_STRICT = ('escape', 'outcome', 'details', 'events')
B_WARN = ()


def units(tier, seed):
    us = cases.fault_units(tier, seed, with_prims=False)
    for u in us:
        u["seed"], u["tier"] = seed, tier
    us += bscope.units(tier, seed)
    return us


def run_unit(unit):
    if unit["kind"] == "bscope":
        return bscope.run_b_unit(unit, strict_own=B_STRICT, warn_props=B_WARN)
    return faultspace.run_unit(unit, ["size"], OWN)


def finish(acc, tier, seed):
    return faultspace.coverage(
        acc,
        "every size-like field (commandSize, responseSize, authSize, parameterSize, every TPM2B size, every list count) of every base case set to value+-1, +-2, 0, 1, the width maximum and the values that reach exactly / just past the end of the input (thorough: also ordered pairs of fields, +-1 and 0); distinct = distinct (root, expected outcome, constraint path shape, violator path shape)",
        required_kinds=("Anticipated", "Exceeded", "Subceeded", "Depleted", "Done"),
    )


def replay(case):
    if case.get("harness") == "bytestep":
        return bscope.replay(case, strict_own=B_STRICT, warn_props=B_WARN)
    return faultspace.replay(case, OWN)
