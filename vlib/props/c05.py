"""C05  Input length mismatches are reported as depleted / superfluous, never absorbed (crash-point enumeration)."""
from .. import bscope, cases, faultspace

LEVEL = "fault_enumeration"
OWN = {"escape", "outcome", "details", "events", "pulled"}
ASSUMPTIONS = [
    "the command code carried by the two input-stream errors is the last commandCode event emitted by this decode (D5)",
    "base cases as in C03 plus every primitive type; a stream may end only where a message starts",
]


B_STRICT = ('outcome', 'details', 'events')
B_WARN = ()


def units(tier, seed):
    us = cases.fault_units(tier, seed, with_prims=True)
    for u in us:
        u["seed"], u["tier"] = seed, tier
    # the same frames and streams decoded under a non-default root path (an argument of the decoder's API)
    for u in cases.fault_units(tier, seed, k=0, with_prims=False, with_structs=False):
        if u["variant"] in ("plain", "pair", "cmd-only", "sess1", "failed"):
            us.append(dict(u, seed=seed, tier=tier, root_path="log.entry[3]", label=u["label"] + "@root"))
    for u in cases.fault_units(tier, seed, k=0, with_prims=False, with_streams=False, cc_filter=lambda c: False):
        if u["variant"] == "rich":
            us.append(dict(u, seed=seed, tier=tier, root_path="x", label=u["label"] + "@root"))
    us += bscope.units(tier, seed)
    return us


def run_unit(unit):
    if unit["kind"] == "bscope":
        return bscope.run_b_unit(unit, strict_own=B_STRICT, warn_props=B_WARN)
    return faultspace.run_unit(unit, ["length"], OWN)


def finish(acc, tier, seed):
    return faultspace.coverage(
        acc,
        "every base case cut at every point 0..len-1 (including the empty input) and extended by 1 byte, 2 bytes and a whole further message; distinct = distinct (root, expected outcome, path shapes)",
        required_kinds=("Depleted", "Superfluous", "Done"),
    )


def replay(case):
    if case.get("harness") == "bytestep":
        return bscope.replay(case, strict_own=B_STRICT, warn_props=B_WARN)
    return faultspace.replay(case, OWN)
