"""C17  Attribute words decompose into fields that partition their bits (engine E, model-free)."""
import re

from .. import loader
from ..runner import Acc

LEVEL = "exploration"
ASSUMPTIONS = [
    "32-bit attribute words are covered by all single-field patterns, walking ones/zeros and seed-rotated words, not exhaustively",
    "a bit row is recognised in the pretty printer's output by its 0/1/. string of exactly the word's width",
]
ANSI = re.compile(r"\x1b\[[0-9;]*m")


def bitfield_types():
    ns = loader.load()
    out = []
    for t in ns.structures_types:
        if hasattr(t, "_int_size") and hasattr(t, "attributes") and not hasattr(t, "are_bits_set"):
            out.append(t)
    return out


def units(tier, seed):
    loader.load()
    us = [{"kind": "type", "label": t.__name__, "type": t.__name__, "tier": tier, "seed": seed} for t in bitfield_types()] + [{"kind": "census", "label": "census"}]
    # histories: all types rendered one after the other in one FRESH process, in every rotation of the type list and its
    # reverse (every type is the first one printed once, every ordered pair A-before-B occurs)
    n = len(bitfield_types())
    for rot in range(n):
        for rev in (0, 1):
            us.append({"kind": "order", "label": f"order:{rot}:{rev}", "rot": rot, "rev": rev, "tier": tier, "seed": seed})
    return us


def order_main(rot, rev):
    """runs in a fresh interpreter: render a few values of every type in the given order, print violations as json"""
    import json
    import sys

    loader.load()
    acc = Acc()
    ts = bitfield_types()
    ts = ts[rot:] + ts[:rot]
    if rev:
        ts = ts[::-1]
    n = 0
    for T in ts:
        attrs = T(0).attributes()
        names = [a._name for a in attrs]
        masks = [int(a._value) for a in attrs]
        bits = T._int_size * 8
        full = (1 << bits) - 1
        for v in sorted({0, full, 0xA5A5A5A5 & full, 0x5A5A5A5A & full} | set(masks) | {full ^ m for m in masks}):
            check_value(acc, T, v, bits, masks, names)
            n += 1
    json.dump({"n": n, "order": [t.__name__ for t in ts], "viol": [{"fp": v["fp"], "case": v["case"], "detail": v["detail"]} for v in acc.viol.values()]}, sys.stdout)


def values_for(bits, masks, tier, seed):
    full = (1 << bits) - 1
    if bits <= 8:
        return list(range(full + 1)), True
    if bits <= 16 and tier == "thorough":
        return list(range(full + 1)), True
    vals = {0, full}
    for i in range(bits):
        vals.add(1 << i)
        vals.add(full ^ (1 << i))
    for m in masks:
        vals.add(m)
        vals.add(full ^ m)
        lo = m & -m
        vals.add(lo)  # lowest bit of the field
        vals.add(m ^ lo if m != lo else m)
        # every value of a narrow field, alone and on a background of ones
        width = m.bit_length() - (lo.bit_length() - 1)
        if width <= (10 if tier == "thorough" else 6):
            sh = lo.bit_length() - 1
            for k in range(1 << width):
                if (k << sh) & ~m == 0:
                    vals.add(k << sh)
                    vals.add(((k << sh) | (full ^ m)) & full)
    # seed-rotated interior representatives (same number for every seed)
    x = (0x9E3779B97F4A7C15 * (seed + 1)) & 0xFFFFFFFFFFFFFFFF
    for _ in range(64 if tier == "quick" else 4096):
        x = (x * 6364136223846793005 + 1442695040888963407) & 0xFFFFFFFFFFFFFFFF
        vals.add((x >> 17) & full)
    return sorted(vals), False


def check_value(acc, T, v, bits, masks, names):
    check_value_obj(acc, T, T(v), v, bits, masks, names)


def check_value_obj(acc, T, x, v, bits, masks, names):
    ns = loader.load()
    tn = T.__name__
    case = {"harness": "value", "type": tn, "value": v}
    for n, m in zip(names, masks):
        sh = (m & -m).bit_length() - 1
        got = getattr(x, n)
        if not isinstance(got, int) or got != (v & m) >> sh:
            acc.violation({"clause": "accessor", "type": tn, "field": n}, case, f"{tn}({v:#x}).{n} = {got!r}, expected {(v & m) >> sh:#x}")
    ev = ns.MarshalEvent(ns.Path(ns.PathNode("")) / ns.PathNode("attr"), T, x)
    from ..impl import bit_rows

    rows = [ANSI.sub("", r) for r in bit_rows(ev)]
    if len(rows) != len(names):
        acc.violation({"clause": "row-count", "type": tn}, case, f"{len(rows)} bit rows for {len(names)} fields")
    over = ["."] * bits
    seen_names = []
    for r in rows:
        toks = r.split()
        name = next((t for t in toks if t.startswith(".") and len(t) > 1 and not set(t) <= set(".01")), None)
        bitstr = next((t for t in toks if len(t) == bits and set(t) <= set("01.")), None)
        if bitstr is None or name is None:
            acc.violation({"clause": "row-format", "type": tn}, case, f"row without a {bits}-wide bit string or a name: {r!r}")
            continue
        seen_names.append(name[1:])
        m = masks[names.index(name[1:])] if name[1:] in names else None
        for i, c in enumerate(bitstr):
            if c != ".":
                if over[i] != ".":
                    acc.violation({"clause": "bit-twice", "type": tn}, case, f"bit {bits - 1 - i} shown twice for {v:#x}")
                over[i] = c
                if m is not None and not (m >> (bits - 1 - i)) & 1:
                    acc.violation({"clause": "row-bits-outside-field", "type": tn, "field": name[1:]}, case, f"row {name} shows bit {bits - 1 - i}, outside its mask {m:#x}")
    if "".join(over) != format(v, "0%db" % bits):
        acc.violation({"clause": "overlay", "type": tn}, case, f"overlay of rows {''.join(over)} != value {v:0{bits}b}")
    if sorted(seen_names) != sorted(names):
        acc.violation({"clause": "row-names", "type": tn}, case, f"rows {seen_names} vs fields {names}")
    if int(x) != v:
        acc.violation({"clause": "int", "type": tn}, case, f"int({tn}({v})) = {int(x)}")


def run_unit(unit):
    acc = Acc()
    ns = loader.load()
    if unit["kind"] == "order":
        import json
        import os
        import subprocess
        import sys

        root = os.path.dirname(os.path.dirname(os.path.dirname(os.path.abspath(__file__))))
        r = subprocess.run([sys.executable, "-c", f"from vlib.props import c17; c17.order_main({unit['rot']}, {unit['rev']})"], cwd=root, capture_output=True, text=True, timeout=600)
        if r.returncode != 0:
            acc.violation({"clause": "harness-error", "what": "order-subprocess"}, {"harness": "order", "rot": unit["rot"], "rev": unit["rev"]}, r.stderr[-400:])
            return acc
        d = json.loads(r.stdout)
        acc.count("evaluations", d["n"])
        acc.count("order_histories")
        acc.shape(("order", tuple(d["order"])))
        for v in d["viol"]:
            acc.violation(dict(v["fp"], history="order"), dict(v["case"], harness="order", rot=unit["rot"], rev=unit["rev"], order=d["order"]), v["detail"] + f" [types rendered before in this process: {d['order'][: d['order'].index(v['case']['type'])]}]")
        acc.sample({"unit": unit["label"], "order": d["order"], "values_rendered": d["n"]}, cap=1)
        return acc
    if unit["kind"] == "census":
        ts = bitfield_types()
        acc.count("types", len(ts))
        if len(ts) < 12:
            acc.violation({"clause": "census"}, {"harness": "census"}, f"only {len(ts)} attribute types found: {[t.__name__ for t in ts]}")
        return acc
    T = ns.TYPES[unit["type"]]
    tn = T.__name__
    bits = T._int_size * 8
    full = (1 << bits) - 1
    attrs = T(0).attributes()
    names = [a._name for a in attrs]
    masks = [int(a._value) for a in attrs]
    accu = 0
    for n, m in zip(names, masks):
        acc.count("evaluations")
        acc.shape(("mask", tn, n))
        if m <= 0 or m > full:
            acc.violation({"clause": "mask-range", "type": tn, "field": n}, {"harness": "masks", "type": tn}, f"{tn}.{n} = {m:#x} outside the {bits}-bit word")
        if accu & m:
            acc.violation({"clause": "mask-overlap", "type": tn, "field": n}, {"harness": "masks", "type": tn}, f"{tn}.{n} = {m:#x} overlaps earlier fields ({accu & m:#x})")
        accu |= m
        # class-level access gives the mask itself
        cm = getattr(T, n)
        if int(cm._value) != m:
            acc.violation({"clause": "class-mask", "type": tn, "field": n}, {"harness": "masks", "type": tn}, f"{tn}.{n} on the class = {int(cm._value):#x}")
    if accu != full:
        acc.violation({"clause": "mask-cover", "type": tn}, {"harness": "masks", "type": tn}, f"{tn}: bits {accu ^ full:#x} belong to no field")
    vals, exhaustive = values_for(bits, masks, unit["tier"], unit["seed"])
    for v in vals:
        acc.count("evaluations")
        acc.count("values")
        check_value(acc, T, v, bits, masks, names)
        acc.shape((tn, v))
    # the construction idiom T(T.a | T.b | ...): every pair of fields, and all fields together
    combos = [(a, b) for i, a in enumerate(names) for b in names[i + 1 :]] + [tuple(names)]
    for combo in combos:
        acc.count("evaluations")
        try:
            word = getattr(T, combo[0])
            for n in combo[1:]:
                word = word | getattr(T, n)
            want = 0
            for n in combo:
                want |= masks[names.index(n)]
            x = T(word)
            if int(x) != want:
                acc.violation({"clause": "or-construction", "type": tn}, {"harness": "masks", "type": tn}, f"{tn}({' | '.join(combo[:3])}...) has value {int(x):#x}, expected {want:#x}")
            else:
                check_value_obj(acc, T, x, want, bits, masks, names)
        except Exception as e:  # noqa: BLE001
            acc.violation({"clause": "or-construction-raises", "type": tn, "exc": type(e).__name__}, {"harness": "masks", "type": tn}, f"{tn}: T({' | '.join('T.' + c for c in combo[:3])}): {type(e).__name__}: {e}")
    acc.count("exhaustive_types" if exhaustive else "sampled_types")
    acc.sample({"type": tn, "bits": bits, "fields": dict(zip(names, [hex(m) for m in masks])), "values_checked": len(vals), "all_values": exhaustive})
    return acc


def finish(acc, tier, seed):
    return {
        "evaluations": acc.n["evaluations"],
        "distinct_nontrivial": len(acc.shapes),
        "rule": "one evaluation per mask and per (type, value); all 2^8 values of 8-bit words; single-field patterns, walking ones/zeros, all values of narrow fields and seed-rotated words for wider ones; distinct = distinct (type, field) / (type, value)",
        "exhaustive": acc.n["sampled_types"] == 0,
        "exhaustive_for": "masks of all types and all values of 8-bit types",
    }


def replay(case):
    acc = Acc()
    ns = loader.load()
    if case.get("harness") == "order":
        a = run_unit({"kind": "order", "label": "replay", "rot": case["rot"], "rev": case["rev"], "tier": "quick", "seed": 0})
        return [(v["fp"], v["case"], v["detail"]) for v in a.viol.values()]
    if case.get("harness") == "value":
        T = ns.TYPES[case["type"]]
        attrs = T(0).attributes()
        check_value(acc, T, case["value"], T._int_size * 8, [int(a._value) for a in attrs], [a._name for a in attrs])
    elif case.get("harness") == "masks":
        acc = run_unit({"kind": "type", "type": case["type"], "tier": "quick", "seed": 0})
    else:
        acc = run_unit({"kind": "census"})
    return [(v["fp"], v["case"], v["detail"]) for v in acc.viol.values()]
