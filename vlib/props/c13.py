"""C13  A constraint error accounts for every input byte (fault enumeration)."""
from .. import bscope, cases, faultspace, oracle
from ..ref import values as V

LEVEL = "fault_enumeration"
OWN = {"remaining"}
ASSUMPTIONS = [
    "the reference decoder's offset when it stops is the number of consumed bytes (emitted fields + the offending field or the rest of the overrun region)",
    "model-free cross-check: widths of the emitted primitive events + consumed offending bytes + len(remaining) == len(input) and remaining is a suffix of the input",
    "fault space: the size and value faults of C03 / C04 on every base case, byte substitutions, and every fault moved to the end of the input (input cut 0, 1, 2 bytes after the faulty field)",
]


B_STRICT = ('remaining',)
B_WARN = ()


def units(tier, seed):
    us = cases.fault_units(tier, seed, with_prims=True)
    for u in us:
        u["seed"], u["tier"] = seed, tier
    us += bscope.units(tier, seed)
    return us


def accounting(acc, case, m, f, ref, r):
    """model-free: input = bytes of emitted fields + consumed offending bytes + remaining"""
    if r.kind not in ("Value", "Anticipated", "Exceeded", "Subceeded"):
        return
    acc.count("rejections")
    acc.count("rejections:" + r.kind)
    if not isinstance(r.remaining, (bytes, bytearray)):
        return  # reported by the 'remaining' clause
    emitted = sum(V.width(e[2]) for e in r.events if e[0] == "E" and e[3] != "..." and e[2] in V.P())
    if r.kind == "Value":
        off = V.width(r.details["type"]) if r.details["type"] in V.P() else 0
    elif r.kind == "Exceeded":
        off = max(0, r.details["limit"] - r.details["counted"])
    else:
        off = 0
    d = None
    if emitted + off + len(r.remaining) != len(m):
        d = dict(case.desc(), harness="faultspace", input=m.hex(), fault=f)
        acc.violation({"clause": "accounting", "kind": r.kind, "off_by": emitted + off + len(r.remaining) - len(m), "root": oracle.rootclass(case.root)}, d, f"{r.kind}: {emitted} bytes in emitted fields + {off} consumed offending bytes + {len(r.remaining)} remaining != {len(m)} input bytes", size=len(m))
    if len(r.remaining) and m[len(m) - len(r.remaining):] != r.remaining:
        d = d or dict(case.desc(), harness="faultspace", input=m.hex(), fault=f)
        acc.violation({"clause": "remaining-not-a-suffix", "kind": r.kind, "root": oracle.rootclass(case.root)}, d, f"{r.kind}: remaining {r.remaining.hex()} is not a suffix of the input", size=len(m))


def run_unit(unit):
    if unit["kind"] == "bscope":
        return bscope.run_b_unit(unit, strict_own=B_STRICT, warn_props=B_WARN)
    fams = ["size", "value", "last"] + (["subst"] if unit["tier"] == "thorough" or unit["kind"] == "struct" else [])
    return faultspace.run_unit(unit, fams, OWN, extra_check=accounting)


def finish(acc, tier, seed):
    cov = faultspace.coverage(
        acc,
        "size and value faults of C03 / C04, byte substitutions (quick: structure roots; thorough: all), and every fault with the input cut 0..2 bytes after the faulty field; judged are the runs that end in a constraint-violation error; distinct = distinct (root, outcome, path shapes)",
        required_kinds=("Value", "Anticipated", "Exceeded", "Subceeded"),
    )
    cov["rejections_judged"] = acc.n["rejections"]
    cov["rejections_by_kind"] = {k[11:]: v for k, v in acc.n.items() if str(k).startswith("rejections:")}
    return cov


def replay(case):
    if case.get("harness") == "bytestep":
        return bscope.replay(case, strict_own=B_STRICT, warn_props=B_WARN)
    return faultspace.replay(case, OWN, extra_check=accounting)
