"""C13  A constraint error accounts for every input byte (fault enumeration)."""
from .. import bscope, cases, faultspace, loader, oracle
from ..ref import values as V

LEVEL = "fault_enumeration"
OWN = {"remaining"}
ASSUMPTIONS = [
    "the reference decoder's offset when it stops is the number of consumed bytes (emitted fields + the offending field or the rest of the overrun region)",
    "model-free cross-check: widths of the emitted primitive events + consumed offending bytes + len(remaining) == len(input) and remaining is a suffix of the input",
    "fault space: the size and value faults of C03 / C04 on every base case, byte substitutions, and every fault moved to the end of the input (input cut 0, 1, 2 bytes after the faulty field)",
]


B_STRICT = ('remaining',)
B_WARN = ()


def units(tier, seed):
    us = cases.fault_units(tier, seed, with_prims=True, thorough_budget=60, two_pairs_all=False)
    for u in us:
        u["seed"], u["tier"] = seed, tier
        if tier == "thorough" and u["kind"] != "struct":
            u["subst_base_only"] = True  # frames: every byte of the default base case, not of every deviated case (hours)
        if tier == "thorough":
            u["value_valid"] = False  # in-range substitutions are accepted or change the layout; C13 judges rejections (C04 runs them)
    us += bscope.units(tier, seed)
    for i in range(6):
        us.append({"kind": "front-ends", "stream": i, "label": f"front-ends:{i}", "seed": seed, "tier": tier})
    return us


def accounting(acc, case, m, f, ref, r):
    """model-free: input = bytes of emitted fields + consumed offending bytes + remaining"""
    if r.kind not in ("Value", "Anticipated", "Exceeded", "Subceeded"):
        return
    acc.count("rejections")
    acc.count("rejections:" + r.kind)
    if not isinstance(r.remaining, (bytes, bytearray)):
        return  # reported by the 'remaining' clause
    emitted = sum(V.width(e[2]) for e in r.events if e[0] == "E" and e[3] != "..." and e[2] in V.P())
    if r.kind == "Value":
        off = V.width(r.details["type"]) if r.details["type"] in V.P() else 0
    elif r.kind == "Exceeded":
        off = max(0, r.details["limit"] - r.details["counted"])
    else:
        off = 0
    d = None
    if emitted + off + len(r.remaining) != len(m):
        d = dict(case.desc(), harness="faultspace", input=m.hex(), fault=f)
        acc.violation({"clause": "accounting", "kind": r.kind, "off_by": emitted + off + len(r.remaining) - len(m), "root": oracle.rootclass(case.root)}, d, f"{r.kind}: {emitted} bytes in emitted fields + {off} consumed offending bytes + {len(r.remaining)} remaining != {len(m)} input bytes", size=len(m))
    if len(r.remaining) and m[len(m) - len(r.remaining):] != r.remaining:
        d = d or dict(case.desc(), harness="faultspace", input=m.hex(), fault=f)
        acc.violation({"clause": "remaining-not-a-suffix", "kind": r.kind, "root": oracle.rootclass(case.root)}, d, f"{r.kind}: remaining {r.remaining.hex()} is not a suffix of the input", size=len(m))


def front_ends(acc, unit):
    """the same rejections reached through the other front-ends (hex text, swtpm log, auto-detected binary, Canonical):
    the error must carry the same remaining bytes as the binary decoder's"""
    from .. import faults, impl
    from ..ref import text
    from ..ref.decode import decode
    from . import c15

    ns = loader.load()
    from tpmstream.common.canonical import Canonical
    from tpmstream.io.auto import Auto
    from tpmstream.io.hex import Hex
    from tpmstream.io.swtpm_log import SWTPMLog

    label, msgs, _ = c15.streams(unit["seed"])[unit["stream"]]
    carried = b"".join(msgs)
    ref0 = decode("CommandResponseStream", carried)
    muts = [(carried, {"fault": "none"})]
    muts += list(faults.value_corruptions(carried, ref0.fields, unit["seed"]))
    muts += list(faults.size_perturbations(carried, ref0.fields, deltas=(-3, -1, 1, 2), absolutes=(0,), with_max=False, roles=("size", "count")))
    for m, f in muts:
        loader.cache_clear()
        b = impl.run("CommandResponseStream", m, strict=True)
        if b.kind not in ("Value", "Anticipated", "Exceeded", "Subceeded") or not isinstance(b.remaining, (bytes, bytearray)):
            continue
        # where the carried messages start: a swtpm log carries them one section each
        cuts, off = [], 0
        for x in msgs:
            cuts.append(off)
            off += len(x)
        parts = [m[c:d] for c, d in zip(cuts, cuts[1:] + [len(m)])]
        fronts = [
            ("hex", lambda: Hex.marshal(tpm_type=ns.CommandResponseStream, buffer=text.hex_text(m, "lower", " "), abort_on_error=True)),
            ("swtpm", lambda: SWTPMLog.marshal(tpm_type=ns.CommandResponseStream, buffer=text.swtpm_log([("io", p_, "Read" if i % 2 == 0 else "Write") for i, p_ in enumerate(parts)], ("log",)), abort_on_error=True)),
            ("auto", lambda: Auto.marshal(tpm_type=ns.CommandResponseStream, buffer=m, abort_on_error=True)),
            ("canonical", lambda: iter(Canonical(m, tpm_type=ns.CommandResponseStream).events)),
        ]
        for fname, mk in fronts:
            loader.cache_clear()
            acc.count("evaluations")
            acc.count("front_end_runs")
            kind, rem = "Done", None
            try:
                for _ in mk():
                    pass
            except Exception as e:  # noqa: BLE001
                kind, _d = impl.norm_err(e)
                if isinstance(e, ns.err.ConstraintViolatedError) and e.bytes_remaining is not None:
                    try:
                        str(e)
                        rem = bytes(e.bytes_remaining)
                    except Exception as e2:  # noqa: BLE001
                        rem = "ESCAPE:" + type(e2).__name__
            acc.shape(("front", fname, b.kind, f.get("path")))
            if kind != b.kind or rem != b.remaining:
                acc.violation({"clause": "front-end-remaining", "front": fname, "kind": b.kind, "same_error": kind == b.kind}, {"harness": "front-ends", "front": fname, "stream": unit["stream"], "input": m.hex(), "fault": f}, f"through {fname}: {kind} with bytes_remaining {rem.hex() if isinstance(rem, (bytes, bytearray)) else rem!r}; the binary decoder: {b.kind} with {b.remaining.hex()!r}", size=len(m))
    acc.sample({"unit": unit["label"], "stream": label, "faulted_inputs": len(muts), "front_ends": ["hex", "swtpm", "auto", "canonical"]}, cap=2)


def run_unit(unit):
    if unit["kind"] == "front-ends":
        from ..runner import Acc

        acc = Acc()
        loader.load()
        front_ends(acc, unit)
        return acc
    if unit["kind"] == "bscope":
        return bscope.run_b_unit(unit, strict_own=B_STRICT, warn_props=B_WARN)
    fams = ["size", "value", "last"] + (["subst"] if unit["tier"] == "thorough" or unit["kind"] == "struct" else [])
    return faultspace.run_unit(unit, fams, OWN, extra_check=accounting)


def finish(acc, tier, seed):
    cov = faultspace.coverage(
        acc,
        "size and value faults of C03 / C04, byte substitutions (quick: structure roots; thorough: all), and every fault with the input cut 0..2 bytes after the faulty field; judged are the runs that end in a constraint-violation error; distinct = distinct (root, outcome, path shapes)",
        required_kinds=("Value", "Anticipated", "Exceeded", "Subceeded"),
    )
    cov["rejections_judged"] = acc.n["rejections"]
    cov["rejections_by_kind"] = {k[11:]: v for k, v in acc.n.items() if str(k).startswith("rejections:")}
    return cov


def replay(case):
    if case.get("harness") == "bytestep":
        return bscope.replay(case, strict_own=B_STRICT, warn_props=B_WARN)
    return faultspace.replay(case, OWN, extra_check=accounting)
