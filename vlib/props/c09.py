"""C09  A command/response stream decodes as its messages decoded one by one (all sequences up to a depth over a pair alphabet)."""
import itertools

from .. import cases, impl, loader, oracle
from ..ref import encode
from ..ref import values as V
from ..ref.decode import decode as ref_decode
from ..runner import Acc

LEVEL = "model_checking"
ASSUMPTIONS = [
    "message alphabet: for every command code the default command/response pair, plus for a spread of codes pairs with sessions, with response encryption, with a failed response, and a trailing command without response",
    "the command code and the response-encryption flag of each response are computed by the reference decoder from the command bytes, not by the implementation",
    "all sequences of 1..n pairs over the alphabet (quick: n=2 over full x core and core x full, n=3 over a six-pair alphabet; thorough: n=2 full x full, n=3 over the ~45 variants of six core codes)",
]

ATTR = {a: i for i, a in enumerate(encode.ATTRS)}
VARIANTS = (
    ("plain", cases.RICH),
    ("sess", cases.RICH + (("sessions:", 1),)),
    ("sess2", (("sessions:", 2),)),
    ("failed", cases.RICH + (("rc:", 1),)),
    ("failed-sess", cases.RICH + (("sessions:", 1), ("rc:", 3))),
    ("encrypt", cases.RICH + (("sessions:", 1), ("attrs:", ("v", 0x40)))),
    ("encrypt-first", cases.RICH + (("sessions:", 2), ("attrs:.authorizationArea[0]", ("v", 0x40)))),
    ("encrypt-empty", (("sessions:", 1), ("attrs:", ("v", 0x60)))),
    ("decrypt", cases.RICH + (("sessions:", 1), ("attrs:", ("v", 0x20)))),
    ("encrypt-pw", cases.RICH + (("sessions:", 1), ("attrs:", ("v", 0x40)), ("val:.authorizationArea[0].sessionHandle", ("v", 0x40000009)))),
    ("pw+encrypt", cases.RICH + (("sessions:", 2), ("attrs:.authorizationArea[1]", ("v", 0x40)), ("val:.authorizationArea[0].sessionHandle", ("v", 0x40000009)))),
    ("decrypt+encrypt", cases.RICH + (("sessions:", 2), ("attrs:", ("v", 0x60)))),
)
CORE = ("Startup", "GetRandom", "StirRandom", "Hash", "CreatePrimary", "NV_Read", "PCR_Read", "GetCapability", "ContextSave", "FlushContext", "Unseal", "PolicyPCR")


def pair(ccname, variant, seed):
    """-> (command bytes, response bytes) or None"""
    d = dict(VARIANTS)[variant]
    u = {"kind": "stream", "ccs": [ccname], "label": f"{ccname}/{variant}", "k": 0, "defaults": d}
    g = encode.Gen(None)
    c = V.C()[ccname]
    if variant == "encrypt-empty" and not g.first_param_is_tpm2b(c["cp"]):
        return None
    if "encrypt" in variant and not g.first_param_is_tpm2b(c["rp"]):
        return None
    if "decrypt" in variant and not g.first_param_is_tpm2b(c["cp"]):
        return None
    try:
        whole = cases.replay_case(u, seed, ())
        half = cases.replay_case(dict(u, half=True), seed, ())
    except encode.Unencodable:
        return None
    return half.b, whole.b[len(half.b):]


def alphabet(seed, core_only=False):
    out = []
    for ccname in sorted(V.C()):
        if core_only and ccname not in CORE:
            continue
        vs = [v for v, _ in VARIANTS] if ccname in CORE else ["plain"]
        for v in vs:
            p = pair(ccname, v, seed)
            if p:
                out.append((f"{ccname}/{v}", p))
    # dedupe identical byte pairs
    seen, res = set(), []
    for l, p in out:
        if p not in seen:
            seen.add(p)
            res.append((l, p))
    return res


def units(tier, seed):
    full = alphabet(seed)
    core = alphabet(seed, core_only=True)
    us = []
    # chunks of first letters; the second/third letters are enumerated inside the unit
    for i in range(0, len(full), 4):
        us.append({"kind": "seq", "label": f"first:{full[i][0]}", "first": [l for l, _ in full[i : i + 4]], "rest": "core" if tier == "quick" else "full", "depth": 2, "seed": seed, "tier": tier})
    if tier == "thorough":
        # all sequences of three pairs over the variants of six core codes (about 45 pairs)
        mini = [l for l, _ in core if l.split("/")[0] in ("Startup", "GetRandom", "Hash", "CreatePrimary", "NV_Read", "PolicyPCR")]
        for l in mini:
            us.append({"kind": "seq", "label": f"deep:{l}", "first": [l], "rest": "mini", "mini": mini, "depth": 3, "seed": seed, "tier": tier})
    else:
        for i in range(0, len(core), 2):
            us.append({"kind": "seq", "label": f"rev:{core[i][0]}", "first": [l for l, _ in core[i : i + 2]], "rest": "full", "depth": 2, "seed": seed, "tier": tier})
    if tier == "quick":
        # the third pair of a stream: all sequences of three pairs over a six-pair alphabet
        mini = [l for l, _ in core if l.split("/")[0] in ("Startup", "GetRandom", "Hash") and l.split("/")[1] in ("plain", "decrypt+encrypt", "failed", "encrypt")][:6]
        for l in mini:
            us.append({"kind": "seq", "label": f"deep:{l}", "first": [l], "rest": "mini", "mini": mini, "depth": 3, "seed": seed, "tier": tier})
    labels = [l for l, _ in full]
    for i in range(0, len(labels), 16):
        us.append({"kind": "boundary", "label": f"boundary:{i}", "labels": labels[i : i + 16], "seed": seed, "tier": tier})
    return us


_alpha = {}


def get_alpha(seed):
    if seed not in _alpha:
        _alpha[seed] = (dict(alphabet(seed)), dict(alphabet(seed, core_only=True)))
    return _alpha[seed]


def single(root, b, cc=None, enc=None, root_path=None):
    return impl.run(root, b, cc=cc, enc=enc, strict=True, keep_raw=True, root_path=root_path)


def check_stream(acc, labels, msgs, trailing_command, root_path=None):
    """msgs: list of message byte strings, alternating command / response"""
    ns = loader.load()
    from tpmstream.common.object import events_to_obj, events_to_objs

    stream = b"".join(msgs)
    d = {"harness": "stream", "root": "CommandResponseStream", "cc": None, "enc": False, "input": stream.hex(), "messages": [m.hex() for m in msgs], "labels": labels}
    fpx = {"n": len(msgs), "trailing": trailing_command}
    acc.count("evaluations")
    loader.cache_clear()  # once per history; never between the decodes that are compared with each other
    s = impl.run("CommandResponseStream", stream, strict=True, keep_raw=True, root_path=root_path)
    if root_path:
        d["root_path"] = root_path
        fpx["custom_root_path"] = True
    acc.count("stream:" + s.kind)
    # the expected concatenation: each response interpreted with the preceding command's code / encrypt request (from the reference)
    exp, exp_raw, per_msg = [], [], []
    cc = enc = None
    for i, m in enumerate(msgs):
        if i % 2 == 0:
            rr = ref_decode("Command", m)
            if rr.kind != "Done":
                acc.violation({"clause": "model-self-check", "what": "alphabet-command"}, d, f"reference rejects alphabet command {labels}: {rr.kind} {rr.details}")
                return
            cc, enc = rr.msgs[-1][2], rr.msgs[-1][3]
            r = single("Command", m, root_path=root_path)
        else:
            r = single("Response", m, cc=cc, enc=enc, root_path=root_path)
        if r.kind != "Done":
            acc.violation(dict({"clause": "single-message-rejected", "kind": r.kind}, **fpx), d, f"message {i} alone: {r.kind} {r.details}")
            return
        exp += r.events
        exp_raw.append((r.raw, cc if i % 2 else None))
        per_msg.append(len(r.events))
    acc.shape(tuple(labels) + (trailing_command,))
    if s.kind != "Done":
        acc.violation(dict({"clause": "stream-rejected", "kind": s.kind, "where": s.details.get("where")}, **fpx), d, f"stream of {len(msgs)} messages: {s.kind} {s.details}")
        return
    if s.events != exp:
        i, got, want = oracle.first_diff(s.events, exp)
        # which message does the difference fall into
        k, acc_n = 0, 0
        for k, n in enumerate(per_msg):
            if i < acc_n + n:
                break
            acc_n += n
        acc.violation(dict({"clause": "stream!=concatenation", "message": "command" if k % 2 == 0 else "response", "first": k < 2}, **fpx), d, f"event {i} (message {k}): stream gives {got}, the message alone gives {want}")
        return
    if root_path:
        return  # events_to_objs splits at the default root path; only the event stream is compared here
    # objects: one per message, in order, equal to the per-message conversion
    try:
        objs = list(events_to_objs(list(s.raw)))
    except Exception as e:  # noqa: BLE001
        acc.violation(dict({"clause": "events_to_objs-raises", "exc": type(e).__name__, "where": impl._where(e)}, **fpx), d, f"{type(e).__name__}: {e}")
        return
    if len(objs) != len(msgs):
        acc.violation(dict({"clause": "object-count"}, **fpx), d, f"{len(objs)} objects for {len(msgs)} messages")
        return
    for i, ((raw, c), o) in enumerate(zip(exp_raw, objs)):
        try:
            want = events_to_obj(list(raw), **({"command_code": ns.CC[c]} if c is not None else {}))
        except Exception as e:  # noqa: BLE001
            acc.violation(dict({"clause": "events_to_obj-raises", "exc": type(e).__name__}, **fpx), d, f"message {i}: {type(e).__name__}: {e}")
            return
        if not (o == want) or type(o) is not type(want):
            acc.violation(dict({"clause": "object-differs", "message": "command" if i % 2 == 0 else "response"}, **fpx), d, f"message {i}: stream object {repr(o)[:200]} != per-message object {repr(want)[:200]}")
            return


def boundary_states(acc, unit):
    """differential check with no expected value: the decoder's coroutine state after k complete pairs equals the
    state before the first byte, up to what is carried on purpose (the pump's last command code, the stream loop's
    previous command object); after a command it may additionally depend only on that command"""
    from ..engines import bytestep

    ns = loader.load()
    full, core = get_alpha(unit["seed"])
    T = ns.CommandResponseStream

    def carried(v):
        """values that are carried from message to message on purpose: an event waiting to be yielded, the command code
        of the last command, a decoded message object"""
        if isinstance(v, tuple) and v:
            if v[0] in ("EV", "WEV", "TPM_CC", "Command", "Response"):
                return True
        return False

    def strip(state, other=None):
        # no function or variable name of tpmstream is assumed: a local is dropped when its value is a carried kind
        # in this state or in the state it is compared with (None before the first message, a command code after it)
        drop = set()
        for st in (state, other or ()):
            for i, (name, lasti, loc) in enumerate(st):
                for k, v in loc:
                    if carried(v):
                        drop.add((i, k))
        return tuple((name, tuple((k, v) for k, v in loc if (i, k) not in drop)) for i, (name, lasti, loc) in enumerate(state))

    # the state is captured when the pump asks for the next byte, i.e. before the events of the last byte are
    # drained: compare one byte into the next command (its first tag byte) with one byte into the first command
    nxt = b"\x80"
    r0 = bytestep.run_prefix(T, nxt, True, {})
    s0raw = r0.state
    for label in unit["labels"]:
        if label not in full:
            continue
        c, r = full[label]
        acc.count("evaluations")
        acc.count("states", 2)
        acc.count("transitions", 2)
        for k in (1, 2):
            loader.cache_clear()
            rk = bytestep.run_prefix(T, (c + r) * k + nxt, True, {})
            acc.shape(("boundary", label, k))
            # INFORMATIONAL ONLY: a behaviour-preserving refactoring may keep a loop-carried local that is overwritten
            # before it is read (seen with a refactored stream loop), so a difference here is not a violation; the
            # behavioural consequence of a really sticky state is caught by the stream == concatenation oracle, whose
            # alphabet puts an encrypting pair in front of every other pair
            if rk.state is None or s0raw is None:
                acc.count("boundary_state_not_captured")
            elif strip(rk.state, s0raw) != strip(s0raw, rk.state):
                a, b = strip(rk.state, s0raw), strip(s0raw, rk.state)
                diff = next((f"{x[0]}: {set(x[-1]) ^ set(y[-1])}" for x, y in zip(a, b) if x != y), f"stack depth {len(a)} vs {len(b)}")
                acc.count("boundary_state_differences")
                if len(acc.notes) < 3:
                    acc.notes.append(f"boundary state after {k} pair(s) of {label} differs from the initial one: {diff[:200]}")
            else:
                acc.count("boundary_state_equal")
    acc.sample({"unit": unit["label"], "what": "canonical coroutine state after 1 and 2 complete pairs == state before the first byte (modulo carried command code)"}, cap=1)
    return acc


def run_unit(unit):
    acc = Acc()
    loader.load()
    if unit["kind"] == "boundary":
        return boundary_states(acc, unit)
    full, core = get_alpha(unit["seed"])
    rest = core if unit["rest"] == "core" else {l: full[l] for l in unit["mini"]} if unit["rest"] == "mini" else full
    for first in unit["first"]:
        if first not in full:
            continue
        f = full[first]
        # depth 1: the pair alone, and the command alone
        check_stream(acc, [first], [f[0], f[1]], False)
        check_stream(acc, [first], [f[0]], True)
        check_stream(acc, [first], [f[0], f[1]], False, root_path="log.entry[3]")
        check_stream(acc, [first, first], [f[0], f[1], f[0]], True, root_path="x")
        acc.count("states", 2)
        for tail in itertools.product(sorted(rest), repeat=unit["depth"] - 1):
            for sub in ([tail] if unit["depth"] == 2 else [tail, tail[:1]]):
                labels = [first] + list(sub)
                msgs = [f[0], f[1]] + [m for l in sub for m in rest[l]]
                check_stream(acc, labels, msgs, False)
                check_stream(acc, labels, msgs[:-1], True)
                acc.count("states", 2)
                acc.count("transitions", 2)
    acc.sample({"unit": unit["label"], "first": unit["first"], "rest_alphabet": len(rest), "depth": unit["depth"], "example_stream": (full[unit["first"][0]][0] + full[unit["first"][0]][1]).hex()[:120] if unit["first"][0] in full else None}, cap=2)
    return acc


def finish(acc, tier, seed):
    full, core = get_alpha(seed)
    if acc.n["stream:Done"] == 0:
        acc.violation({"clause": "vacuous"}, {"harness": "finish"}, "no stream decoded")
    n = acc.n["evaluations"]
    return {
        "states": acc.n["states"],
        "transitions": max(1, acc.n["transitions"]),
        "traces_validated_against_impl": n,
        "evaluations": n,
        "distinct_nontrivial": len(acc.shapes),
        "rule": "a state is a sequence of pair labels (history); transitions append one pair of the alphabet; every sequence is decoded as a stream (with and without its last response) and message by message; distinct = distinct label sequences",
        "alphabet": {"full": len(full), "core": len(core), "core_labels": sorted(core)[:40]},
        "boundary_state_informational": {"equal": acc.n["boundary_state_equal"], "different": acc.n["boundary_state_differences"], "not_captured": acc.n["boundary_state_not_captured"]},
        "exhaustive": True,
    }


def replay(case):
    acc = Acc()
    loader.load()
    msgs = [bytes.fromhex(m) for m in case["messages"]]
    if case.get("harness") == "boundary":
        a = boundary_states(Acc(), {"kind": "boundary", "label": "replay", "labels": [case["label"]], "seed": 0})
        return [(v["fp"], v["case"], v["detail"]) for v in a.viol.values()]
    check_stream(acc, case.get("labels", []), msgs, len(msgs) % 2 == 1, root_path=case.get("root_path"))
    return [(v["fp"], v["case"], v["detail"]) for v in acc.viol.values()]
