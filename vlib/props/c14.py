"""C14  The printers show every event and every byte exactly once, in order (engine A + fault families; row model)."""
from .. import cases, faultspace, impl, loader, oracle
from ..ref import rows
from ..ref import values as V
from ..ref.decode import decode as ref_decode
from ..runner import Acc

LEVEL = "model_checking"
ASSUMPTIONS = [
    "event streams: strict decodes of the well-formed encodings (engine A, <= k deviations) and warn-mode decodes of every size / value / cut / suffix fault on the base cases",
    "row model: vlib/ref/rows.py; D11: the position of a warning relative to the row of the byte buffer it interrupts is not checked; D13: the parent event of a non-byte list may have zero or one row",
    "colour codes are used to split a row into its columns and are otherwise ignored",
]


def units(tier, seed):
    us = []
    for u in cases.wf_units(tier, seed, struct_k=1 if tier == "quick" else 2, small_k=2 if tier == "quick" else 3, frame_k=1, stream_k=1 if tier == "thorough" else 0):
        u["seed"], u["tier"], u["mode"] = seed, tier, "wf"
        us.append(u)
    # frames once more under a root path of several nodes (rows get deeper than any default path)
    for u in cases.fault_units(tier, seed, k=0, with_prims=False, with_structs=False, with_streams=False):
        if u["variant"] in ("plain", "sess1", "decrypt", "encrypted"):
            us.append(dict(u, seed=seed, tier=tier, mode="wf", root_path="capture.entry[3].msg", label=u["label"] + "@root"))
    us.append({"kind": "bytes", "mode": "bytes", "label": "all-byte-values", "seed": seed, "tier": tier})
    for u in cases.fault_units(tier, seed, with_prims=False, thorough_budget=60, two_pairs_all=False):
        u["seed"], u["tier"], u["mode"] = seed, tier, "faults"
        u["label"] = "faults:" + u["label"]
        u["value_valid"] = False
        us.append(u)
    return us


def check_events(acc, root, m, r, d, mode):
    """r: impl.Run with raw events"""
    ns = loader.load()
    from tpmstream.io.events import Events
    from tpmstream.io.pretty import Pretty

    rc = oracle.rootclass(root)
    acc.count("evaluations")
    nwarn = sum(1 for e in r.events if e[0] == "W")
    acc.count("streams_with_warnings" if nwarn else "streams_without_warnings")
    try:
        lines = list(Pretty.unmarshal(iter(r.raw)))
        for l in lines:
            plain = rows.ANSI.sub("", l)
            if any(ord(ch) < 0x20 or ord(ch) == 0x7F for ch in plain):
                acc.violation({"clause": "pretty:control-character-in-row", "mode": mode, "root": rc}, d(), f"a row contains a control character (a row is one line): {plain!r}"[:300], size=len(m))
                break
    except Exception as e:  # noqa: BLE001
        acc.violation({"clause": "pretty-raises", "exc": type(e).__name__, "where": impl._where(e), "mode": mode}, d(), f"Pretty.unmarshal raised {type(e).__name__}: {e}", size=len(m))
        lines = None
    if lines is not None:
        exp = rows.expected(r.events, r.raw)
        for clause, detail in rows.compare(lines, exp):
            acc.violation({"clause": "pretty:" + clause, "mode": mode, "root": rc}, d(), detail, size=len(m))
        # hex column over all rows == bytes of the decoded fields
        hexcol = "".join(p[4] for p in (rows.parse_row(l) for l in lines) if p[0] == "R")
        fields = b"".join(V.enc_int(e[2], e[3]) for e in r.events if e[0] == "E" and e[3] != "...")
        if hexcol != fields.hex():
            acc.violation({"clause": "pretty:hex-column", "mode": mode, "root": rc}, d(), f"hex column {hexcol[:80]} != bytes of the decoded fields {fields.hex()[:80]}", size=len(m))
        elif mode == "strict" and r.kind == "Done" and fields != m:
            acc.violation({"clause": "pretty:hex-column-vs-input", "mode": mode, "root": rc}, d(), "hex column != input of a well-formed message", size=len(m))
    try:
        elines = list(Events.unmarshal(iter(r.raw)))
    except Exception as e:  # noqa: BLE001
        acc.violation({"clause": "events-printer-raises", "exc": type(e).__name__, "where": impl._where(e), "mode": mode}, d(), f"Events.unmarshal raised {type(e).__name__}: {e}", size=len(m))
        return
    if len(elines) != len(r.raw):
        acc.violation({"clause": "events-printer-lines", "mode": mode}, d(), f"{len(elines)} lines for {len(r.raw)} events", size=len(m))
        return
    for e, ne, line in zip(r.raw, r.events, elines):
        t = rows.ANSI.sub("", line)
        if ne[0] == "E":
            want_tail = f"{ne[1]} = {'...' if ne[3] == '...' else format(e.value)}"
            if not t.endswith(want_tail) or not t.startswith(ne[2]):
                acc.violation({"clause": "events-printer-line", "mode": mode}, d(), f"line {t!r} for event {ne}", size=len(m))
                return
        elif not t.strip():
            acc.violation({"clause": "events-printer-empty-warning-line", "mode": mode}, d(), f"empty line for {ne}", size=len(m))
            return


def run_unit(unit):
    acc = Acc()
    loader.load()
    seed = unit["seed"]
    if unit["mode"] == "bytes":
        # every byte value inside a byte buffer (as the only byte, and all 256 in one buffer)
        bufs = [bytes([v, v]) for v in range(256)] + [bytes(range(256))]
        for buf in bufs:
            m = len(buf).to_bytes(2, "big") + buf
            r = impl.run("TPM2B_MAX_BUFFER", m, strict=True, keep_raw=True)
            acc.shape(("bytes", buf[:2]))
            check_events(acc, "TPM2B_MAX_BUFFER", m, r, lambda: {"harness": "print", "root": "TPM2B_MAX_BUFFER", "cc": None, "enc": False, "input": m.hex(), "mode": "strict"}, "strict")
        acc.sample({"unit": unit["label"], "buffers": len(bufs)}, cap=1)
        return acc
    if unit["mode"] == "wf":
        def on_case(case):
            loader.cache_clear()
            r = impl.run(case.root, case.b, cc=case.cc, enc=case.enc, strict=True, keep_raw=True, root_path=unit.get("root_path"), keep_root=True)
            if r.kind != "Done":
                acc.count("skipped_not_accepted")
                return
            acc.shape((case.root, tuple(e[2] for e in r.events)))
            check_events(acc, case.root, case.b, r, lambda: dict(case.desc(), harness="print", mode="strict", root_path=unit.get("root_path")), "strict")

        cases.explore_unit(unit, seed, on_case, acc)
    else:
        def on_case(case):
            ref0 = ref_decode(case.root, case.b, cc=case.cc, enc=case.enc)
            for fam in ("size", "value", "length"):
                for m, f in faultspace.FAMILIES[fam](case, ref0, unit):
                    loader.cache_clear()
                    r = impl.run(case.root, m, cc=case.cc, enc=case.enc, strict=False, keep_raw=True)
                    acc.count("family:" + f["fault"])
                    acc.shape((oracle.rootclass(case.root), tuple(sorted({e[1] for e in r.events if e[0] == "W"})), f["fault"], f.get("path")))
                    check_events(acc, case.root, m, r, lambda: dict(case.desc(), harness="print", input=m.hex(), fault=f, mode="warn"), "warn")

        cases.explore_unit(unit, seed, on_case, acc)
    c = cases.replay_case(unit, seed, ())
    acc.sample({"unit": unit["label"], "input": c.b.hex()[:80], "mode": unit["mode"]}, cap=2)
    return acc


def finish(acc, tier, seed):
    n = acc.n["evaluations"]
    if acc.n["streams_with_warnings"] == 0 or acc.n["streams_without_warnings"] == 0:
        acc.violation({"clause": "vacuous"}, {"harness": "finish"}, "no stream with / without warnings printed")
    return {
        "states": acc.n["states"],
        "transitions": acc.n["transitions"] + sum(v for k, v in acc.n.items() if str(k).startswith("family:")),
        "traces_validated_against_impl": n,
        "evaluations": n,
        "distinct_nontrivial": len(acc.shapes),
        "rule": "one evaluation = one event stream rendered by both printers; streams: every choice vector with <= k deviations per root (strict) and every size / value / cut / suffix fault on every base case (warn); distinct = distinct (root, event type sequence) / (root, warning classes, fault, path)",
        "streams_with_warnings": acc.n["streams_with_warnings"],
        "streams_without_warnings": acc.n["streams_without_warnings"],
        "caps_hit": acc.n["caps_hit"],
        "exhaustive": acc.n["caps_hit"] == 0,
    }


def replay(case):
    acc = Acc()
    loader.load()
    b = bytes.fromhex(case["input"])
    strict = case.get("mode") != "warn"
    r = impl.run(case["root"], b, cc=case.get("cc"), enc=case.get("enc"), strict=strict, keep_raw=True, root_path=case.get("root_path"), keep_root=True)
    check_events(acc, case["root"], b, r, lambda: case, "strict" if strict else "warn")
    return [(v["fp"], v["case"], v["detail"]) for v in acc.viol.values()]
