"""C08  Warn mode reports problems as warnings and keeps decoding (fault enumeration; tiling + lenient reference)."""
from .. import bscope, cases, faultspace, impl, loader, oracle
from ..ref import tiling
from ..ref import values as V
from ..ref.decode import decode as ref_decode
from ..runner import Acc

LEVEL = "fault_enumeration"
ASSUMPTIONS = [
    "tiling is checked model-free on the observed events (DESIGN 4.4): field bytes are the next input bytes; after a reported overrun / shortfall the cursor is the end the violated size field declares; after Depleted fewer than 8 bytes may be unaccounted (the incomplete last field)",
    "value-only inputs are compared with the lenient reference decoder (DESIGN 4.3)",
    "allowed escapes: ValueConstraintViolatedError for a command code outside the table or a selector value that selects no union member",
]


B_STRICT = ()
B_WARN = ('C08',)


def units(tier, seed):
    us = cases.fault_units(tier, seed, with_prims=True, thorough_budget=40, two_pairs_all=False)
    for u in us:
        u["seed"], u["tier"] = seed, tier
        if tier == "quick" and u["kind"] != "struct":
            u["value_valid"] = False
            u["subst_alphabet"] = (0x00, 0xFF)
        if tier == "thorough" and u["kind"] != "struct":
            u["value_valid"] = False
            u["subst_base_only"] = True  # frames: all ten substitute bytes on the default base case only
    us += bscope.units(tier, seed)
    return us


def allowed_escape(w):
    """ValueConstraintViolatedError for an unknown command code / a selector without member"""
    if w.kind != "Value":
        return False
    d = w.details
    if d.get("type") == "TPM_CC" and d.get("path", "").endswith(".commandCode") and d.get("value") not in V.cc_by_num():
        return True
    if d.get("type") in V.S() and V.S()[d["type"]]["kind"] == "union":
        return True
    return False


def check_input(acc, root, m, cc, enc, d):
    loader.cache_clear()
    w = impl.run(root, m, cc=cc, enc=enc, strict=False)
    acc.count("evaluations")
    esc = None if w.kind == "Done" else w.kind
    ok_esc = esc is not None and allowed_escape(w)
    kinds = [e[1] for e in w.events if e[0] == "W"]
    acc.count("warn_outcome:" + ("Done" if esc is None else "allowed-escape" if ok_esc else "ESCAPE"))
    acc.shape((oracle.rootclass(root) if oracle.rootclass(root) != "struct" else root, tuple(sorted(set(kinds))), esc))
    rc = oracle.rootclass(root)
    if esc is not None and not ok_esc:
        fp = {"clause": "aborts", "exc": esc, "root": rc}
        if esc.startswith("ESCAPE"):
            fp["where"] = w.details.get("where")
            import re as _re

            fp["msg"] = _re.sub(r"[0-9]+", "N", str(w.details.get("msg") or ""))[:44]
            if fp["where"] in ("encrypted", "process_response") or fp["msg"].startswith(("Parameter encryption failed", "Started parsing Response")):
                ctx = oracle.enc_context(w.events, root, enc, cc)
                fp["requested"] = ctx["requested"]
                fp["area_can_encrypt"] = ctx["area_can_encrypt"]
                fp["failed_response"] = ctx["failed_response"]
                fp["prev_command_abandoned_early"] = ctx["prev_command_abandoned_early"]
                # a problem reported inside the message that is being decoded (its session area may have been abandoned)
                last_root = max((i for i, e in enumerate(w.events) if e[0] == "E" and e[1] == "" and e[3] == "..."), default=0)
                fp["warned_in_message"] = any(e[0] == "W" for e in w.events[last_root:])
                fp["inconsistent"] = ctx["requested"] != ctx["response_sessions_encrypt"]
        else:
            fp["at"] = oracle.tail_shape(w.details.get("violator") or w.details.get("path") or w.details.get("cpath"))
        acc.violation(fp, d(), f"warn-mode decoding aborted with {esc}: {w.details}", size=len(m))
    probs = tiling.tile(m, w.events, esc, escape_allowed=True)
    for clause, detail in probs:
        acc.violation({"clause": "tiling:" + clause, "root": rc}, d(), detail + f" [warnings: {','.join(kinds)}]", size=len(m))
    # value-only inputs: the lenient field-by-field interpretation
    ref = ref_decode(root, m, cc=cc, enc=enc, lenient=True)
    if ref.kind == "Done" or ref.kind in ("UnknownCC", "NoMember"):
        acc.count("value_only")
        if ref.nwarn:
            acc.count("value_only_with_warnings")
        if ref.kind == "Done":
            if esc is not None and ok_esc:
                acc.violation({"clause": "lenient:unexpected-escape", "root": rc}, d(), f"value-only input, warn mode raised {w.details}", size=len(m))
            elif esc is None and w.events != ref.events:
                i, got, want = oracle.first_diff(w.events, ref.events)
                acc.violation({"clause": "lenient:events-differ", "root": rc, "got": (got or ("none",))[0] + ":" + str((got or (0, "none"))[1])[:12], "want": (want or ("none",))[0] + ":" + str((want or (0, "none"))[1])[:12]}, d(), f"event {i}: observed {got}, lenient interpretation {want}", size=len(m))
        else:
            if esc is None or not ok_esc:
                if esc is None:
                    acc.violation({"clause": "lenient:missing-escape", "root": rc, "ref": ref.kind}, d(), f"reference: {ref.kind} {ref.details}; warn mode ended normally", size=len(m))
            elif w.events != ref.events:
                i, got, want = oracle.first_diff(w.events, ref.events)
                acc.violation({"clause": "lenient:events-before-escape-differ", "root": rc}, d(), f"event {i}: observed {got}, lenient interpretation {want}", size=len(m))
    return w


def run_unit(unit):
    if unit["kind"] == "bscope":
        return bscope.run_b_unit(unit, strict_own=B_STRICT, warn_props=B_WARN)
    acc = Acc()
    loader.load()
    fams = ["size", "value", "length", "subst"]

    def on_case(case):
        ref0 = ref_decode(case.root, case.b, cc=case.cc, enc=case.enc)
        acc.count("base_cases")
        check_input(acc, case.root, case.b, case.cc, case.enc, lambda: dict(case.desc(), harness="warn"))
        for fam in fams:
            for m, f in faultspace.FAMILIES[fam](case, ref0, unit):
                acc.count("family:" + f["fault"])
                check_input(acc, case.root, m, case.cc, case.enc, lambda: dict(case.desc(), harness="warn", input=m.hex(), fault=f))

    cases.explore_unit(unit, unit["seed"], on_case, acc)
    c = cases.replay_case(unit, unit["seed"], ())
    acc.sample({"unit": unit["label"], "base_input": c.b.hex()[:80], "families": fams}, cap=2)
    return acc


def finish(acc, tier, seed):
    if acc.n["value_only_with_warnings"] == 0 or acc.n["warn_outcome:Done"] == 0:
        acc.violation({"clause": "vacuous"}, {"harness": "finish"}, "no value-only input with warnings / no completed warn-mode run")
    return {
        "evaluations": acc.n["evaluations"],
        "distinct_nontrivial": len(acc.shapes),
        "rule": "every base case and every size / value / cut / suffix / byte-substitution fault on it (thorough: ordered pairs of size faults and of value faults, pairs of substitutions for short messages) decoded in warn mode; distinct = distinct (root, set of warning classes, escape class)",
        "base_cases": acc.n["base_cases"],
        "warn_outcomes": {k[13:]: v for k, v in acc.n.items() if str(k).startswith("warn_outcome:")},
        "value_only_inputs": acc.n["value_only"],
        "value_only_with_warnings": acc.n["value_only_with_warnings"],
        "faults_by_family": {k[7:]: v for k, v in acc.n.items() if str(k).startswith("family:")},
        "caps_hit": acc.n["caps_hit"],
        "exhaustive": acc.n["caps_hit"] == 0,
    }


def replay(case):
    if case.get("harness") == "bytestep":
        return bscope.replay(case, strict_own=B_STRICT, warn_props=B_WARN)
    acc = Acc()
    loader.load()
    check_input(acc, case["root"], bytes.fromhex(case["input"]), case.get("cc"), case.get("enc"), lambda: case)
    return [(v["fp"], v["case"], v["detail"]) for v in acc.viol.values()]
