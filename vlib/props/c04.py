"""C04  Strict mode rejects exactly the inputs containing an out-of-range value (fault enumeration)."""
from .. import cases, faultspace

LEVEL = "fault_enumeration"
OWN = {"escape", "outcome", "details", "events", "pulled"}
ASSUMPTIONS = [
    "the allowed set of every primitive type is the one of the pinned layout (C20 ties the live tables to it)",
    "base cases as in C03; a corrupted selector / command code / tag changes the layout of what follows: the reference decoder says what then has to happen",
]


def units(tier, seed):
    us = cases.fault_units(tier, seed, with_prims=True)
    for u in us:
        u["seed"], u["tier"] = seed, tier
    return us


def run_unit(unit):
    return faultspace.run_unit(unit, ["value"], OWN)


def finish(acc, tier, seed):
    return faultspace.coverage(
        acc,
        "every constrained primitive field of every base case replaced by every value just below / above each interval of its allowed set, 0, the width limits and one far value (must be rejected, first in wire order), and by every end point / member / interior representative of the allowed set (must be accepted) (thorough: ordered pairs of corrupted fields); distinct = distinct (root, expected outcome, offending path shape)",
        required_kinds=("Value", "Done"),
    )


def replay(case):
    return faultspace.replay(case, OWN)
