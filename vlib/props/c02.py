"""C02  Re-encoding the events of a decodable input reproduces the input bytes (engine A, model-free oracle)."""
from .. import cases, faults, impl, loader
from ..ref import values as V
from ..runner import Acc
from .c01 import path_shape

LEVEL = "model_checking"
ASSUMPTIONS = [
    "inputs are the well-formed encodings of C01's choice trees (same bounds), every size / cut / suffix / byte-substitution fault on the base cases that strict decoding still accepts, plus, in warn mode, every single out-of-range substitution of a constrained leaf of the default encodings (thorough: of the <=1-deviation encodings, and every ordered pair for the default encodings)",
    "the declared width of a primitive event is taken from the pinned layout",
]


def units(tier, seed):
    us = cases.wf_units(tier, seed)
    for u in us:
        u["seed"] = seed
        u["tier"] = tier
    for u in cases.fault_units(tier, seed, with_prims=True):
        u["seed"], u["tier"], u["mode"] = seed, tier, "faults"
        u["label"] = "faults:" + u["label"]
        us.append(u)
    return us


def reencode(acc, root, b, r, d, mode):
    """r: impl.Run with raw events; checks join == input and per-field slice alignment"""
    ns = loader.load()
    try:
        chunks = list(ns.Binary.unmarshal(r.raw))
    except Exception as e:  # noqa: BLE001
        acc.violation({"clause": "unmarshal-raises", "mode": mode, "exc": type(e).__name__, "where": impl._where(e)}, d, f"Binary.unmarshal raised {type(e).__name__}: {e}")
        return
    # the events may come from a one-shot iterator (the command line pipes the live decoder into the encoder)
    try:
        chunks_it = list(ns.Binary.unmarshal(iter(r.raw)))
    except Exception as e:  # noqa: BLE001
        chunks_it = "ESCAPE:" + type(e).__name__
    if chunks_it != chunks:
        acc.violation({"clause": "unmarshal-of-iterator-differs", "mode": mode}, d, f"re-encoding the same events from an iterator gives {len(chunks_it) if isinstance(chunks_it, list) else chunks_it} chunks, from a list {len(chunks)}")
        return
    if len(chunks) != len(r.raw):
        acc.violation({"clause": "chunk-count", "mode": mode}, d, f"{len(chunks)} chunks for {len(r.raw)} events")
        return
    off = 0
    for ev, ne, ch in zip(r.raw, r.events, chunks):
        if not isinstance(ch, (bytes, bytearray)):
            acc.violation({"clause": "chunk-type", "mode": mode}, d, f"chunk {ch!r} for {ne}")
            return
        if ne[0] != "E" or ne[3] == "...":
            if ch != b"":
                acc.violation({"clause": "structural-event-has-bytes", "mode": mode, "type": ne[2] if ne[0] == "E" else "warning"}, d, f"{ne} re-encodes to {bytes(ch).hex()}")
                return
            continue
        w = V.width(ne[2]) if ne[2] in V.P() else len(ch)
        if len(ch) != w or bytes(ch) != b[off : off + w]:
            acc.violation(
                {"clause": "field-slice", "mode": mode, "type": ne[2], "path": path_shape(ne[1])},
                d,
                f"{ne[1]} ({ne[2]}, value {ne[3]}) re-encodes to {bytes(ch).hex()} but the input at offset {off} is {b[off:off + w].hex()} (declared width {w})",
            )
            return
        off += w
    if b"".join(chunks) != b:
        acc.violation({"clause": "join", "mode": mode}, d, f"re-encoded {b''.join(chunks).hex()[:80]} != input {b.hex()[:80]}")


def check_case(acc, case, unit):
    loader.cache_clear()
    d = case.desc()
    d["harness"] = "reencode"
    r = impl.run(case.root, case.b, cc=case.cc, enc=case.enc, strict=True, keep_raw=True)
    acc.count("strict:" + r.kind)
    if r.kind == "Done":
        acc.shape((case.root, tuple((e[2], e[3] if e[3] == "..." else len(e)) for e in r.events)))
        reencode(acc, case.root, case.b, r, d, "strict")
    # warn mode, value-corrupted variants of the shallow encodings
    ndev = case.ndev
    if ndev > (0 if unit["tier"] == "quick" else 1) or unit["label"].endswith("/big"):
        return
    from ..ref.decode import decode

    ref = decode(case.root, case.b, cc=case.cc, enc=case.enc)
    muts = list(faults.value_corruptions(case.b, ref.fields, unit["seed"]))
    if unit["tier"] == "thorough" and ndev == 0:
        extra = []
        for m, f in muts:
            rm = decode(case.root, m, cc=case.cc, enc=case.enc, lenient=True)
            for m2, f2 in faults.value_corruptions(m, [x for x in rm.fields if x[2] > f["offset"]], unit["seed"]):
                extra.append((m2, {"fault": "value2", "first": f, "second": f2}))
        muts += extra
    for m, f in muts:
        loader.cache_clear()
        acc.count("warn_runs")
        w = impl.run(case.root, m, cc=case.cc, enc=case.enc, strict=False, keep_raw=True)
        kinds = {e[1] for e in w.events if e[0] == "W"}
        if w.kind != "Done" or kinds - {"Value"}:
            acc.count("warn_skipped_not_value_only")
            continue
        acc.count("warn_value_only")
        dd = dict(d, input=m.hex(), fault=f, mode="warn")
        acc.shape(("warn", case.root, f.get("path") or f.get("first", {}).get("path")))
        reencode(acc, case.root, m, w, dd, "warn")


def accepted_faults(acc, case, unit):
    """every faulted variant of a base case that strict decoding still accepts must round-trip as well"""
    from .. import faultspace
    from ..ref.decode import decode

    ref0 = decode(case.root, case.b, cc=case.cc, enc=case.enc)
    fams = ["size", "length", "subst"] if (unit["tier"] == "thorough" or unit["kind"] == "struct") else ["size", "length"]
    for fam in fams:
        for m, f in faultspace.FAMILIES[fam](case, ref0, unit):
            loader.cache_clear()
            r = impl.run(case.root, m, cc=case.cc, enc=case.enc, strict=True, keep_raw=True)
            acc.count("fault_runs")
            if r.kind != "Done":
                continue
            acc.count("fault_runs_accepted")
            acc.shape(("accepted-fault", case.root, f["fault"], f.get("path") or f.get("at")))
            reencode(acc, case.root, m, r, dict(case.desc(), harness="reencode", input=m.hex(), fault=f), "strict")


def run_unit(unit):
    acc = Acc()
    loader.load()
    if unit.get("mode") == "faults":
        cases.explore_unit(unit, unit["seed"], lambda c: accepted_faults(acc, c, unit), acc)
        c = cases.replay_case(unit, unit["seed"], ())
        acc.sample({"unit": unit["label"], "base_input": c.b.hex()[:80], "oracle": "every size / cut / suffix / substitution fault that strict decoding accepts round-trips"}, cap=1)
        return acc
    cases.explore_unit(unit, unit["seed"], lambda c: check_case(acc, c, unit), acc)
    c = cases.replay_case(unit, unit["seed"], ())
    acc.sample({"unit": unit["label"], "input": c.b.hex()[:80], "oracle": "join(unmarshal(events)) == input, per-field slice alignment"})
    return acc


def finish(acc, tier, seed):
    n = acc.n["executions"] + acc.n["warn_runs"] + acc.n["fault_runs"]
    if acc.n["strict:Done"] == 0 or acc.n["warn_value_only"] == 0:
        acc.violation({"clause": "vacuous"}, {"harness": "finish"}, f"strict Done {acc.n['strict:Done']}, warn value-only {acc.n['warn_value_only']}")
    return {
        "states": acc.n["states"],
        "transitions": acc.n["transitions"] + acc.n["warn_runs"],
        "traces_validated_against_impl": n,
        "evaluations": n,
        "distinct_nontrivial": len(acc.shapes),
        "rule": "strict: every choice vector with <= k deviations per root (as C01); warn: every out-of-range substitution of every constrained leaf of the default (thorough: <=1-deviation) encodings, kept when all reported problems are value problems; distinct = distinct (root, event type/width shape) or (root, corrupted path)",
        "bounds": {"roots_by_k": {k: v for k, v in acc.n.items() if str(k).startswith("k:")}},
        "fault_runs": acc.n["fault_runs"],
        "fault_runs_accepted_by_strict_decoding": acc.n["fault_runs_accepted"],
        "caps_hit": acc.n["caps_hit"],
        "exhaustive": acc.n["caps_hit"] == 0,
    }


def replay(case):
    acc = Acc()
    b = bytes.fromhex(case["input"])
    strict = case.get("mode") != "warn"
    r = impl.run(case["root"], b, cc=case.get("cc"), enc=case.get("enc"), strict=strict, keep_raw=True)
    if r.kind == "Done":
        reencode(acc, case["root"], b, r, case, "strict" if strict else "warn")
    return [(v["fp"], v["case"], v["detail"]) for v in acc.viol.values()]
