"""C01  Well-formed encodings decode to exactly the field-by-field event sequence (engine A)."""
from .. import cases, impl, loader
from ..runner import Acc

LEVEL = "model_checking"
ASSUMPTIONS = [
    "the reference decoder (vlib/ref/decode.py) over vlib/pinned/layout.json states what the TPM 2.0 tables dictate; it is cross-checked against the generator's intent on every execution",
    "bounds: deviations <= k from the default encoding per root (see coverage.bounds); list counts and buffer sizes in {0,1,2}, at most 3 sessions",
]


def units(tier, seed):
    us = cases.wf_units(tier, seed)
    for u in us:
        u["seed"] = seed
    # every session / encryption configuration of every frame as a root of its own (k <= 1 around it)
    for u in cases.fault_units(tier, seed, k=1, with_prims=False, with_structs=False):
        if u["variant"] in ("sess1", "sess2", "sess0", "sess4", "decrypt", "decrypt-pw", "decrypt-first", "encrypted", "pair-sess", "pair-enc", "pair-enc-first", "failed", "failed-flag", "plain3"):
            us.append(dict(u, seed=seed, label="variant:" + u["label"], budget=400, k_min=0))
    # every frame and stream once more under a non-default root path (an argument of the decoder's API)
    for u in list(us):
        if u["kind"] in ("command", "response", "stream"):
            us.append(dict(u, k=0, root_path="log.entry[3]", label=u["label"] + "@root"))
    # model validation on real traffic: the bundled captures, message by message
    import glob
    import os

    from .. import loader as _l

    files = sorted(glob.glob(os.path.join(_l.SRC, "tpmstream", "data", "*.pcap")))
    for i in range(0, len(files), 8):
        us.append({"kind": "corpus", "label": "corpus:%d" % i, "files": files[i : i + 8], "seed": seed, "k": 0})
    return us


def shape(events):
    return tuple((e[1], e[2]) if e[0] == "E" else e[:2] for e in events)


def first_diff(a, b):
    for i, (x, y) in enumerate(zip(a, b)):
        if x != y:
            return i, x, y
    if len(a) != len(b):
        i = min(len(a), len(b))
        return i, a[i] if i < len(a) else None, b[i] if i < len(b) else None
    return None


def path_shape(p):
    import re

    return re.sub(r"\[\d+\]", "[]", p or "")


def check_case(acc, case):
    loader.cache_clear()
    ref, ok = cases.self_check(case, acc)
    d = case.desc()
    d["harness"] = "wellformed"
    if not ok:
        fd = first_diff(ref.events, case.intent)
        acc.violation({"clause": "model-self-check", "root": case.root, "ref_kind": ref.kind}, d, f"generator intent and reference decoder disagree (MODEL problem, not the implementation): {ref.kind} {ref.details} {fd}")
        return
    rp = (case.unit or {}).get("root_path") if hasattr(case, "unit") else None
    if rp:
        d["root_path"] = rp
    r = impl.run(case.root, case.b, cc=case.cc, enc=case.enc, strict=True, root_path=rp)
    acc.count("outcome:" + r.kind)
    acc.shape((case.root, shape(ref.events)))
    if r.kind != "Done":
        fp = {"clause": "strict-rejects-wellformed", "root": case.root if not cases.is_area(case.root) else "area", "kind": r.kind}
        if r.kind.startswith("ESCAPE"):
            fp["where"] = r.details.get("where")
        else:
            fp["path"] = path_shape(r.details.get("path") or r.details.get("cpath"))
        acc.violation(fp, d, f"strict decoding of a well-formed {case.root} fails: {r.kind} {r.details}")
        return
    if r.events != ref.events:
        i, got, want = first_diff(r.events, ref.events)
        what = "length" if got is None or want is None else next(n for n, (x, y) in zip(("kind", "path", "type", "value", "value-class"), zip(got, want)) if x != y)
        acc.violation(
            {"clause": "events-differ", "root": case.root if case.root in ("Command", "Response", "CommandResponseStream") else "struct", "what": what, "path": path_shape((want or got)[1])},
            d,
            f"{case.root}: event {i} is {got}, the layout dictates {want} ({len(r.events)} vs {len(ref.events)} events)",
        )
    if r.pulled != len(case.b):
        acc.violation({"clause": "bytes-pulled", "root": case.root}, d, f"pulled {r.pulled} of {len(case.b)} bytes")


def corpus_unit(acc, unit):
    """every message of the bundled captures: the reference decoder must accept what the implementation accepts and
    produce the same events (validates the model on real traffic; also a C01 check on 5 594 real encodings)"""
    import io

    from .. import oracle
    from ..ref.decode import decode

    loader.load()
    import dpkt

    def packets(raw):
        """TPM messages of a bundled capture (raw IP packets written by tpm2-tss' tcti-pcap), read with dpkt directly"""
        out = []
        for _ts, buf in dpkt.pcapng.Reader(io.BytesIO(raw)):
            try:
                pkg = dpkt.ip.IP(buf)
            except dpkt.dpkt.UnpackError:
                pkg = dpkt.ethernet.Ethernet(buf)
            while not isinstance(pkg, bytes):
                pkg = pkg.data
            if len(pkg) >= 10:
                size = int.from_bytes(pkg[2:6], "big")
                out.append(pkg[:size] if size != len(pkg) else pkg)
        return out

    for path in unit["files"]:
        with open(path, "rb") as f:
            pkgs = packets(f.read())
        cc = enc = None
        for i, m in enumerate(pkgs):
            loader.cache_clear()
            root = "Command" if i % 2 == 0 else "Response"
            kw = {} if root == "Command" else {"cc": cc, "enc": enc}
            ref, r, probs = oracle.compare_strict(root, m, **kw)
            acc.count("corpus_messages")
            acc.count("executions")
            acc.count("outcome:" + r.kind)
            if root == "Command":
                cc, enc = (ref.msgs[-1][2], ref.msgs[-1][3]) if ref.kind == "Done" and ref.msgs else (ref.last_cc, False)
            d = {"harness": "wellformed", "root": root, "cc": kw.get("cc"), "enc": bool(kw.get("enc")), "input": m.hex(), "file": path.split("/")[-1], "index": i}
            for p in probs:
                if p["clause"] in ("outcome", "details", "events", "escape"):
                    acc.violation({"clause": "corpus:" + p["clause"], "root": root, "expected": p.get("expected"), "observed": p.get("observed")}, d, f"{path.split('/')[-1]} message {i}: " + p["detail"], size=len(m))
            if r.kind == "Done" and ref.kind == "Done":
                acc.count("corpus_accepted_by_both")
                acc.shape((root, shape(ref.events)))
    acc.sample({"unit": unit["label"], "files": [p.split("/")[-1] for p in unit["files"]][:3]}, cap=1)
    return acc


def run_unit(unit):
    acc = Acc()
    loader.load()
    if unit["kind"] == "corpus":
        return corpus_unit(acc, unit)
    cases.explore_unit(unit, unit["seed"], lambda c: check_case(acc, c), acc)
    if len(acc.samples) < 1:
        c = cases.replay_case(unit, unit["seed"], ())
        acc.sample({"unit": unit["label"], "k": unit["k"], "default_input": c.b.hex()[:80], "events": len(c.intent)})
    return acc


def finish(acc, tier, seed):
    n = acc.n["executions"]
    if acc.n["outcome:Done"] == 0 and not acc.viol:
        acc.violation({"clause": "vacuous"}, {"harness": "finish"}, "no execution was decoded")
    return {
        "states": acc.n["states"],
        "transitions": acc.n["transitions"],
        "traces_validated_against_impl": n,
        "evaluations": n,
        "distinct_nontrivial": len(acc.shapes),
        "rule": "executions = complete runs of the generator (one well-formed encoding each), all choice vectors with <= k deviations per root; states = choice points visited, transitions = alternatives expanded; distinct = distinct (root, event path/type shape)",
        "bounds": {"roots_by_k": {k: v for k, v in acc.n.items() if str(k).startswith("k:")}, "counts": [0, 1, 2], "buffer_sizes": [0, 1, 2], "max_sessions": 3},
        "model_self_checks": acc.n["model_self_checks"],
        "corpus_messages": acc.n["corpus_messages"],
        "corpus_accepted_by_both": acc.n["corpus_accepted_by_both"],
        "caps_hit": acc.n["caps_hit"],
        "exhaustive": acc.n["caps_hit"] == 0,
    }


def replay(case):
    acc = Acc()
    c = cases.Case(case["root"], bytes.fromhex(case["input"]), case.get("cc"), case.get("enc"))
    c.unit = {"root_path": case.get("root_path")}
    from ..ref.decode import decode

    r = decode(c.root, c.b, cc=c.cc, enc=c.enc)
    c.intent = r.events  # replay: the reference stands for the intent
    check_case(acc, c)
    return [(v["fp"], v["case"], v["detail"]) for v in acc.viol.values()]
