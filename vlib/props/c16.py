"""C16  Protocol integers carry their value, width, validity and name faithfully (engine E, sweeps)."""
import operator

from .. import loader
from ..ref import values as V
from ..runner import Acc

LEVEL = "exploration"
ASSUMPTIONS = [
    "validity and text form are taken from the pinned layout (vlib/ref/values.py); attribute words and response codes have their own text rules (C17, C18) and are checked here for value, byte form, validity and operators only",
    "8-bit types: all values; 16-bit types: all values in the thorough tier, in the quick tier all values below 0x300, every interval end point +-2 and the sign / width limits +-2; 32/64-bit types: every interval end point +-2, width limits, powers of two +-1 and seed-rotated interior representatives",
    "shift counts <= 64 and exponents <= 8 with bases <= 1000 (larger results are correct but do not fit in memory)",
]

BINOPS = [
    ("add", operator.add), ("sub", operator.sub), ("mul", operator.mul), ("truediv", operator.truediv), ("floordiv", operator.floordiv),
    ("mod", operator.mod), ("divmod", divmod), ("pow", pow), ("lshift", operator.lshift), ("rshift", operator.rshift),
    ("and", operator.and_), ("or", operator.or_), ("xor", operator.xor),
    ("lt", operator.lt), ("le", operator.le), ("eq", operator.eq), ("ne", operator.ne), ("gt", operator.gt), ("ge", operator.ge),
]


def units(tier, seed):
    loader.load()
    return [{"kind": "type", "label": tn, "type": tn, "tier": tier, "seed": seed} for tn in sorted(V.P())]


def points(tn, tier, seed):
    p = V.P()[tn]
    bits = p["size"] * 8
    lo, hi = V.limits(tn)
    if bits <= 8 or (bits <= 16 and tier == "thorough"):
        return range(lo, hi + 1), True
    pts = set()
    for a, b in V.intervals(tn):
        for d in (-2, -1, 0, 1, 2):
            pts.add(a + d)
            pts.add(b + d)
        m = V._interior(a, b, seed)
        if m is not None:
            pts.add(m)
    for e in p["valid"]:
        for d in (-1, 0, 1):
            pts.add(e["lo"] + d)
            pts.add(e["hi"] + d)
    for m in p.get("members", []):
        if isinstance(m[1], dict):
            pts.update((m[1]["lo"], m[1]["hi"], m[1]["lo"] + 1, m[1]["hi"] + 1, m[1]["lo"] - 1))
        else:
            pts.add(m[1])
    for d in range(-2, 3):
        pts.update((lo + d, hi + d, d, (hi + 1) // 2 + d))
    for k in range(bits):
        pts.update(((1 << k) - 1, 1 << k, (1 << k) + 1, -(1 << k)))
    if bits <= 16:
        pts.update(range(lo, min(hi, lo + 0x300) + 1))
        if lo == 0:
            pts.update(range(0, 0x300))
    x = (0x9E3779B97F4A7C15 * (seed + 3) + hash(tn) % 1000) & 0xFFFFFFFFFFFFFFFF
    for _ in range(32 if tier == "quick" else 2048):
        x = (x * 6364136223846793005 + 1442695040888963407) & 0xFFFFFFFFFFFFFFFF
        pts.add(lo + (x >> 11) % (hi - lo + 1))
    return sorted(v for v in pts if lo <= v <= hi), False


def check_value(acc, T, tn, v):
    p = V.P()[tn]
    case = {"harness": "value", "type": tn, "value": v}
    kind = p["kind"]

    def bad(clause, detail, **extra):
        acc.violation(dict({"clause": clause, "kind": kind, "width": p["size"]}, **extra), case, f"{tn}({v}): {detail}")

    try:
        x = T(v)
    except Exception as e:  # noqa: BLE001
        bad("construct-raises", f"{type(e).__name__}: {e}", exc=type(e).__name__)
        return None
    try:
        if int(x) != v or type(int(x)) is not int:
            bad("int", f"int() = {int(x)!r}")
        if not (x == v) or (x != v) or not (v == x):
            bad("eq", "x == v is false")
        if hash(x) != hash(v):
            bad("hash", f"hash {hash(x)} != {hash(v)}")
        if not (x <= v and x >= v and not x < v and not x > v and x < v + 1 and x > v - 1):
            bad("order", "ordering against v-1, v, v+1 is wrong")
        # the index protocol and the other conversions a plain int supports
        if operator.index(x) != v or type(operator.index(x)) is not int:
            bad("index", f"operator.index() = {operator.index(x)!r}")
        if hex(x) != hex(v) or bin(x) != bin(v) or oct(x) != oct(v) or ("%x" % x) != ("%x" % v) or float(x) != float(v):
            bad("int-conversions", f"hex / bin / oct / %x / float differ from the plain integer ({hex(x)}, {float(x)})")
        if 0 <= v < 4 and (list(range(x)) != list(range(v)) or [10, 11, 12, 13, 14][x] != [10, 11, 12, 13, 14][v]):
            bad("int-conversions", "range() / sequence index differ from the plain integer")
        want = V.enc_int(tn, v)
        got = x.to_bytes()
        if got != want:
            bad("to_bytes", f"{bytes(got).hex() if isinstance(got, (bytes, bytearray)) else got!r} != {want.hex()}")
        valid = V.is_valid(tn, v)
        if bool(x.is_valid()) != valid:
            bad("is_valid", f"is_valid() = {x.is_valid()}, the declared set says {valid}", valid=valid)
        t = V.text(tn, v)
        if t is not None:
            s, f = str(x), format(x)
            if s != t:
                bad("str", f"str() = {s!r}, expected {t!r}", named=not t.lstrip("-").isdigit())
            if f != t:
                bad("format", f"format() = {f!r}, expected {t!r}", named=not t.lstrip("-").isdigit())
    except Exception as e:  # noqa: BLE001
        bad("raises", f"{type(e).__name__}: {e}", exc=type(e).__name__)
    return x


def op_pairs(tn, seed):
    lo, hi = V.limits(tn)
    vals = {lo, hi, 0, 1, min(hi, 2), min(hi, 7)}
    for a, b in V.intervals(tn)[:3]:
        vals.update((a, b))
    others = [0, 1, 2, 3, 7, -1, -3, 64, 255, 1 << 31, (1 << 64) - 1, 0.5, 2.5, float("inf"), float("-inf"), float("nan")]
    return sorted(v for v in vals if lo <= v <= hi), others


def check_ops(acc, T, tn, seed):
    avals, bvals = op_pairs(tn, seed)
    n = 0
    for a in avals:
        xa = T(a)
        for b in bvals:
            for name, op in BINOPS:
                for order in ("xb", "bx", "xx", "xy"):
                    if order == "xx" and b != bvals[0]:
                        continue
                    if order == "xy" and not (isinstance(b, int) and V.limits(tn)[0] <= b <= V.limits(tn)[1]):
                        continue
                    l, r = {"xb": (a, b), "bx": (b, a), "xx": (a, a), "xy": (a, b)}[order]
                    if name in ("lshift", "rshift") and (isinstance(l, float) or isinstance(r, float) or not (0 <= r <= 64) or abs(l) > (1 << 70)):
                        continue
                    if name == "pow" and (isinstance(r, float) and (l < 0 or r != r or abs(r) == float("inf")) or isinstance(l, float) and (l != l or abs(l) == float("inf")) or abs(l) > 1000 or not (-2 <= r <= 8)):
                        continue
                    if name in ("and", "or", "xor") and (isinstance(l, float) or isinstance(r, float)):
                        continue
                    try:
                        exp = op(l, r)
                    except Exception as e:  # noqa: BLE001
                        exp = ("exc", type(e).__name__)
                    tl, tr = {"xb": (xa, b), "bx": (b, xa), "xx": (xa, T(a)), "xy": (xa, T(b) if order == "xy" else None)}[order]
                    try:
                        got = op(tl, tr)
                    except Exception as e:  # noqa: BLE001
                        got = ("exc", type(e).__name__)
                    n += 1
                    def eqn(a_, b_):
                        if isinstance(a_, tuple) and isinstance(b_, tuple):
                            return len(a_) == len(b_) and all(eqn(p_, q_) for p_, q_ in zip(a_, b_))
                        if isinstance(a_, float) and isinstance(b_, float) and a_ != a_ and b_ != b_:
                            return True
                        return a_ == b_ and (type(a_) is type(b_) or isinstance(b_, bool))

                    same = eqn(got, exp)
                    if not same:
                        acc.violation({"clause": "operator", "op": name, "order": order}, {"harness": "op", "type": tn, "a": a, "b": b, "op": name, "order": order}, f"{tn}: {name}({l!r}, {r!r}) with typed operand(s) [{order}] = {got!r}, plain int gives {exp!r}")
    return n


def run_unit(unit):
    acc = Acc()
    ns = loader.load()
    tn = unit["type"]
    T = ns.TYPES.get(tn)
    if T is None:
        acc.violation({"clause": "type-missing", "type": tn}, {"harness": "value", "type": tn, "value": 0}, f"pinned primitive {tn} does not exist in the tree")
        return acc
    p = V.P()[tn]
    if T._int_size != p["size"] or bool(T._signed) != p["signed"]:
        acc.violation({"clause": "width-signedness", "type": tn}, {"harness": "value", "type": tn, "value": 0}, f"{tn}: size {T._int_size} signed {T._signed}, pinned {p['size']} {p['signed']}")
    pts, exhaustive = points(tn, unit["tier"], unit["seed"])
    for v in pts:
        check_value(acc, T, tn, v)
        acc.count("evaluations")
    acc.count("values", len(pts))
    acc.count("types_exhaustive" if exhaustive else "types_boundary")
    acc.count("values_exhaustive" if exhaustive else "values_boundary", len(pts))
    # out-of-width values must not be silently truncated by to_bytes
    lo, hi = V.limits(tn)
    for v in (lo - 1, hi + 1):
        acc.count("evaluations")
        try:
            b = T(v).to_bytes()
            acc.violation({"clause": "out-of-width-encodes", "width": p["size"]}, {"harness": "value", "type": tn, "value": v}, f"{tn}({v}).to_bytes() = {bytes(b).hex()} although {v} does not fit")
        except OverflowError:
            pass
        except Exception as e:  # noqa: BLE001
            acc.count("out_of_width_other_exception:" + type(e).__name__)
    n = check_ops(acc, T, tn, unit["seed"])
    acc.count("evaluations", n)
    acc.count("operator_evaluations", n)
    acc.shape((tn, len(pts), exhaustive))
    for v in list(pts)[:: max(1, len(pts) // 64)]:
        acc.shape((tn, v))
    acc.sample({"type": tn, "width": p["size"], "kind": p["kind"], "values": len(pts), "all_values": exhaustive, "operator_evaluations": n}, cap=3)
    return acc


def finish(acc, tier, seed):
    return {
        "evaluations": acc.n["evaluations"],
        "distinct_nontrivial": len(acc.shapes),
        "rule": "one evaluation per (type, value) and per (type, operator, operand pair, operand order); distinct = distinct types and a thinned set of distinct (type, value) points (counted, capped at 64 per type)",
        "types": acc.n["types_exhaustive"] + acc.n["types_boundary"],
        "types_all_values": acc.n["types_exhaustive"],
        "values_checked": acc.n["values"],
        "operator_evaluations": acc.n["operator_evaluations"],
        "exhaustive": acc.n["types_boundary"] == 0,
        "exhaustive_for": "all values of 8-bit types (thorough: and 16-bit types)",
    }


def replay(case):
    acc = Acc()
    ns = loader.load()
    T = ns.TYPES[case["type"]]
    if case.get("harness") == "op":
        check_ops(acc, T, case["type"], 0)
    else:
        check_value(acc, T, case["type"], case["value"])
    return [(v["fp"], v["case"], v["detail"]) for v in acc.viol.values()]
