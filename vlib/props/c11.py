"""C11  Events and Python objects convert into each other without loss (engine A, relational oracle)."""
from .. import cases, impl, loader
from ..runner import Acc
from .c01 import first_diff, path_shape

LEVEL = "model_checking"
ASSUMPTIONS = [
    "inputs are the well-formed encodings of C01's choice trees (same bounds); streams are left to C09",
    "objects are compared with ==, events by (path, declared type, value, value class)",
]


def units(tier, seed):
    us = cases.wf_units(tier, seed, with_streams=False, struct_k=1, small_alts=1500 if tier == "quick" else 20000)
    for u in us:
        u["seed"] = seed
    # every session / encryption configuration of every frame as a root of its own (<= 1 deviation around it, so that
    # e.g. an encrypted first parameter of size 0 is reached)
    for u in cases.fault_units(tier, seed, k=1, with_prims=False, with_structs=False, with_streams=False):
        if u["variant"] in ("sess1", "sess0", "sess4", "decrypt", "decrypt-pw", "encrypted", "failed", "failed-flag"):
            us.append(dict(u, seed=seed, label="variant:" + u["label"], budget=300, k_min=0))
    return us


def rootclass(root):
    return root if root in ("Command", "Response") else "area" if cases.is_area(root) else "struct"


def obj_summary(o, depth=0):
    s = repr(o)
    return s if len(s) < 300 else s[:300] + "..."


def check_case(acc, case):
    ns = loader.load()
    from tpmstream.common.object import events_to_obj, obj_to_events
    from tpmstream.common.canonical import Canonical

    loader.cache_clear()
    d = case.desc()
    d["harness"] = "objects"
    r = impl.run(case.root, case.b, cc=case.cc, enc=case.enc, strict=True, keep_raw=True)
    acc.count("strict:" + r.kind)
    if r.kind != "Done":
        return
    rc = rootclass(case.root)
    kw = {"command_code": ns.CC[case.cc]} if case.cc is not None else {}
    acc.shape((case.root, tuple((e[1], e[2]) for e in r.events)))

    def fp(clause, **extra):
        return dict({"clause": clause, "root": rc}, **extra)

    def guarded(what, f):
        try:
            return f()
        except Exception as e:  # noqa: BLE001
            acc.violation(fp("raises", what=what, exc=type(e).__name__, where=impl._where(e)), d, f"{what} raised {type(e).__name__}: {str(e)[:200]}")
            return None

    if r.obj is None:
        acc.violation(fp("decoder-returns-no-object"), d, "the decoder returned None for a complete value")
        return
    o2 = guarded("events_to_obj", lambda: events_to_obj(list(r.raw), **kw))
    if o2 is None:
        return
    if not (r.obj == o2):
        acc.violation(fp("decoder-object!=events_to_obj", shape=diff_shape(r.obj, o2)), d, f"decoder: {obj_summary(r.obj)}\nrebuilt: {obj_summary(o2)}")
    for name, o in (("decoder-object", r.obj), ("rebuilt-object", o2)):
        evs = guarded("obj_to_events(%s)" % name, lambda o=o: [impl.norm_ev(e) for e in obj_to_events(o)])
        if evs is None:
            continue
        if evs != r.events:
            i, got, want = first_diff(evs, r.events)
            what = "length" if got is None or want is None else next((n for n, (x, y) in zip(("kind", "path", "type", "value", "value-class"), zip(got, want)) if x != y), "?")
            acc.violation(fp("obj_to_events!=decoded-events", of=name, what=what, path=path_shape((want or got)[1])), d, f"obj_to_events({name}): event {i} is {got}, decoded {want} ({len(evs)} vs {len(r.events)} events)")
        else:
            back = guarded("re-encode(%s)" % name, lambda o=o: b"".join(ns.Binary.unmarshal(obj_to_events(o))))
            if back is not None and back != case.b:
                acc.violation(fp("object-reencode", of=name), d, f"re-encoding the object gives {back.hex()[:80]}")
    # a failed response has no handle / parameter area: it can be rebuilt without the command code, too
    if case.root == "Response" and any(e[1] == ".responseCode" and e[3] not in (0, "...") for e in r.events):
        o3 = guarded("events_to_obj(failed response, no command code)", lambda: events_to_obj(list(r.raw)))
        if o3 is not None and not (o3 == r.obj):
            acc.violation(fp("failed-response-without-command-code"), d, "events_to_obj without a command code gives a different object for a failed response")
    # Canonical(obj): the object stays retrievable whatever is read first
    for order in ("events-then-object", "object-then-events", "eager"):
        def canon_obj(order=order):
            c = Canonical(r.obj, lazy=order != "eager")
            if order == "object-then-events":
                return c.object, [impl.norm_ev(e) for e in c.events]
            ev = [impl.norm_ev(e) for e in c.events]
            return c.object, ev

        res = guarded("Canonical(obj) " + order, canon_obj)
        if res is not None and (not (res[0] == r.obj) or res[1] != r.events):
            acc.violation(fp("canonical-object-access-order", order=order), d, f"Canonical(obj), {order}: object {'lost / different' if not (res[0] == r.obj) else 'kept'}, events {'differ' if res[1] != r.events else 'equal'}")
    # Canonical facade
    if not case.enc:
        T = ns.TYPES[case.root]

        def canon():
            c = Canonical(case.b, format_in=ns.Binary, tpm_type=T, **kw)
            return c.object, [impl.norm_ev(e) for e in c.events]

        res = guarded("Canonical(bytes)", canon)
        if res is not None:
            co, ce = res
            if ce != r.events:
                acc.violation(fp("canonical-bytes-events"), d, f"Canonical(bytes).events differ: {first_diff(ce, r.events)}")
            if not (co == r.obj):
                acc.violation(fp("canonical-bytes-object"), d, f"Canonical(bytes).object {obj_summary(co)} != decoder object")
    if rc != "area" or True:
        res = guarded("Canonical(obj)", lambda: [impl.norm_ev(e) for e in Canonical(r.obj).events])
        if res is not None and res != r.events:
            i, got, want = first_diff(res, r.events)
            acc.violation(fp("canonical-object-events", path=path_shape(((want or got) or (0, ""))[1])), d, f"Canonical(obj).events: event {i} is {got}, decoded {want}")


def diff_shape(a, b, path=""):
    """first path at which two objects differ, as (path shape, type names)"""
    from dataclasses import fields, is_dataclass

    if is_dataclass(a) and is_dataclass(b) and type(a) is type(b):
        for f in fields(a):
            x, y = getattr(a, f.name), getattr(b, f.name)
            if not (x == y):
                return diff_shape(x, y, path + "." + f.name)
        return path + ":?"
    if isinstance(a, list) and isinstance(b, list):
        if len(a) != len(b):
            return path + ":len"
        for i, (x, y) in enumerate(zip(a, b)):
            if not (x == y):
                return diff_shape(x, y, path + "[]")
    return f"{path}:{type(a).__name__}/{type(b).__name__}"


def run_unit(unit):
    acc = Acc()
    loader.load()
    cases.explore_unit(unit, unit["seed"], lambda c: check_case(acc, c), acc)
    c = cases.replay_case(unit, unit["seed"], ())
    acc.sample({"unit": unit["label"], "input": c.b.hex()[:80], "oracle": "decoder object == events_to_obj(events); obj_to_events(obj) == events; Canonical agrees; re-encode == input"})
    return acc


def finish(acc, tier, seed):
    n = acc.n["executions"]
    if acc.n["strict:Done"] == 0:
        acc.violation({"clause": "vacuous"}, {"harness": "finish"}, "nothing decoded")
    return {
        "states": acc.n["states"],
        "transitions": acc.n["transitions"],
        "traces_validated_against_impl": n,
        "evaluations": n,
        "distinct_nontrivial": len(acc.shapes),
        "rule": "every choice vector with <= k deviations per root (as C01, without streams); distinct = distinct (root, event path/type shape)",
        "bounds": {"roots_by_k": {k: v for k, v in acc.n.items() if str(k).startswith("k:")}},
        "caps_hit": acc.n["caps_hit"],
        "exhaustive": acc.n["caps_hit"] == 0,
    }


def replay(case):
    acc = Acc()
    c = cases.Case(case["root"], bytes.fromhex(case["input"]), case.get("cc"), case.get("enc"))
    check_case(acc, c)
    return [(v["fp"], v["case"], v["detail"]) for v in acc.viol.values()]
