"""C19  The command line is a faithful front-end to the decoder (configuration enumeration; the library is the oracle)."""
import contextlib
import io
import itertools
import os
import re
import shutil
import subprocess
import sys
import tempfile

from .. import cases, impl, loader, oracle
from ..ref import rows as R
from ..ref import text
from ..ref import values as V
from ..runner import Acc
from . import c09, c15

LEVEL = "model_checking"
ASSUMPTIONS = [
    "the oracle for `convert` is the library itself: same front-end class, type, command code, abort_on_error=False, rendered by the same printer; colour codes stripped",
    "the command line is run in-process (main() with patched sys.argv, captured stdout/stderr, SystemExit caught); a fixed handful of real `python -m tpmstream` subprocesses checks the exit status mapping",
    "`example` decodes the bundled captures (about 12 s per invocation): quick 6 command codes + 3 types, thorough every command code + 24 types",
    "--type together with --in=auto is refused by the tool with a RuntimeError; that combination is not enumerated",
]
ANSI = R.ANSI
FRONTS = {"binary": "Binary", "hex": "Hex", "pcapng": "Pcapng", "swtpm-log": "SWTPMLog", "auto": "Auto"}


def run_cli(argv):
    import tpmstream.__main__ as M

    out, err = io.StringIO(), io.StringIO()
    old = sys.argv
    sys.argv = ["tpmstream"] + list(argv)
    status = None
    try:
        with contextlib.redirect_stdout(out), contextlib.redirect_stderr(err):
            try:
                M.main()
                status = "returned"
            except SystemExit as e:
                status = 0 if e.code in (None, 0) else (e.code & 0xFF if isinstance(e.code, int) else 1)
            except BaseException as e:  # noqa: BLE001
                status = "exc:" + type(e).__name__
    finally:
        sys.argv = old
    return status, ANSI.sub("", out.getvalue()), err.getvalue()


def fronts():
    from tpmstream.io.auto import Auto
    from tpmstream.io.binary import Binary
    from tpmstream.io.hex import Hex
    from tpmstream.io.pcapng import Pcapng
    from tpmstream.io.swtpm_log import SWTPMLog

    return {"binary": Binary, "hex": Hex, "pcapng": Pcapng, "swtpm-log": SWTPMLog, "auto": Auto}


def printers():
    from tpmstream.io.binary import Binary
    from tpmstream.io.events import Events
    from tpmstream.io.pretty import Pretty

    return {"binary": Binary, "events": Events, "pretty": Pretty}


def expected_convert(fin, buf, T, cc, fout):
    """what the library produces -> (text, exception class name or None, decoded bytes hex)"""
    ns = loader.load()
    loader.cache_clear()
    events = fronts()[fin].marshal(tpm_type=T, buffer=iter(buf), command_code=cc, abort_on_error=False)
    seen = []

    def tap():
        for e in events:
            seen.append(e)
            yield e

    out, exc = [], None
    try:
        for line in printers()[fout].unmarshal(tap()):
            out.append(line)
    except Exception as e:  # noqa: BLE001
        exc = type(e).__name__
    if fout == "binary":
        txt = "".join(" " + l.hex() for l in out)
    else:
        txt = "".join(ANSI.sub("", l) + "\n" for l in out)
    decoded = b"".join(e.value.to_bytes() for e in seen if isinstance(e, ns.MarshalEvent) and e.value is not ...)
    return txt, exc, decoded.hex()


def render(container, msgs):
    b = b"".join(msgs)
    if container == "binary":
        return b
    if container == "hex":
        return text.hex_text(b, "lower", " ", None, "", "\n")
    if container == "swtpm-log":
        return text.swtpm_log([("io", m, "Read" if i % 2 == 0 else "Write") for i, m in enumerate(msgs)], ("swtpm log",))
    if container == "pcapng":
        return text.pcapng_file(list(msgs), "ip")
    raise ValueError(container)


def units(tier, seed):
    us = []
    for i in range(len(c15.streams(seed))):
        for cont in ("binary", "hex", "swtpm-log", "pcapng"):
            us.append({"kind": "convert-stream", "stream": i, "container": cont, "label": f"convert:{i}:{cont}", "seed": seed, "tier": tier})
    for j in range(len(typed_files(seed))):
        us.append({"kind": "convert-typed", "file": j, "label": f"convert-typed:{j}", "seed": seed, "tier": tier})
        us.append({"kind": "type", "file": j, "label": f"type:{j}", "seed": seed, "tier": tier})
    ccs = sorted(V.C())
    ex = ["Startup", "GetRandom", "CreatePrimary", "NV_Read", "PolicyPCR", "ZGen_2Phase"] if tier == "quick" else ccs
    types = ["TPMS_AUTH_COMMAND", "TPMT_PUBLIC", "TPM2B_DIGEST"] if tier == "quick" else ["TPMS_AUTH_COMMAND", "TPMS_AUTH_RESPONSE", "TPMT_PUBLIC", "TPM2B_DIGEST", "TPM2B_PUBLIC", "TPML_PCR_SELECTION", "TPMS_PCR_SELECTION", "TPMT_SYM_DEF", "TPMT_HA", "TPM2B_NONCE", "TPMS_CAPABILITY_DATA", "TPMT_TK_CREATION", "TPMS_CREATION_DATA", "TPM2B_ECC_POINT", "TPMS_ECC_POINT", "TPMT_SIGNATURE", "TPM2B_NAME", "TPM2B_AUTH", "TPMS_NV_PUBLIC", "TPM2B_SENSITIVE_CREATE", "TPMT_RSA_DECRYPT", "TPM2B_PUBLIC_KEY_RSA", "TPML_DIGEST", "TPMS_CONTEXT"]
    for x in ex + types:
        us.append({"kind": "example", "what": x, "label": "example:" + x, "seed": seed, "tier": tier})
    us.append({"kind": "example-refuse", "label": "example:refusals", "seed": seed, "tier": tier})
    us.append({"kind": "subprocess", "label": "subprocess", "seed": seed, "tier": tier})
    # long units first
    us.sort(key=lambda u: 0 if u["kind"].startswith("example") and u["kind"] != "example-refuse" else 1)
    return us


def typed_files(seed):
    """(label, root type, cc name or None, bytes)"""
    st = c09.pair("Startup", "plain", seed)
    h = c09.pair("Hash", "sess", seed)
    gr = c09.pair("GetRandom", "plain", seed)
    out = [("cmd-startup", "Command", None, st[0]), ("cmd-hash-sess", "Command", None, h[0]), ("rsp-getrandom", "Response", "GetRandom", gr[1]), ("rsp-hash-sess", "Response", "Hash", h[1])]
    for tn in ("TPM2B_DIGEST", "TPMT_PUBLIC", "TPML_PCR_SELECTION", "TPMS_AUTH_COMMAND"):
        u = {"kind": "struct", "root": tn, "label": tn, "k": 0, "defaults": cases.RICH}
        out.append(("struct-" + tn, tn, None, cases.replay_case(u, seed, ()).b))
    bad = bytearray(st[0])
    bad[-1] = 2
    out.append(("cmd-startup-badvalue", "Command", None, bytes(bad)))
    # binary contents whose first / last bytes look like ASCII whitespace
    out.append(("struct-digest-ends-0x20", "TPM2B_DIGEST", None, bytes.fromhex("0004a5a60d20")))
    out.append(("struct-alg-sha256", "TPMI_ALG_HASH", None, bytes.fromhex("000b")))
    out.append(("struct-uint16-0x2009", "UINT16", None, bytes.fromhex("2009")))
    return out


class Tmp:
    def __enter__(self):
        self.d = tempfile.mkdtemp(prefix="verif_c19_")
        return self

    def __exit__(self, *a):
        shutil.rmtree(self.d, ignore_errors=True)

    def write(self, name, b):
        p = os.path.join(self.d, name)
        with open(p, "wb") as f:
            f.write(b)
        return p


def check_convert(acc, argv, fin, buf, T, cc, fout, d):
    ns = loader.load()
    acc.count("evaluations")
    acc.count("cli_runs")
    want, wexc, decoded = expected_convert(fin, buf, T, cc, fout)
    loader.cache_clear()
    status, out, err = run_cli(argv)
    fp = {"cmd": "convert", "in": fin, "out": fout, "typed": T is not ns.CommandResponseStream}
    if wexc is None:
        if status != 0:
            acc.violation(dict(fp, clause="status", got=str(status)), d, f"{' '.join(argv[:-1])}: exit status {status}, the library completes; stderr: {err[-200:]}")
            return
    else:
        if status == 0 or status == "returned":
            acc.violation(dict(fp, clause="status-hides-error", want=wexc), d, f"{' '.join(argv[:-1])}: exit status {status} although the library raises {wexc}")
    if fout == "binary":
        got_hex = re.sub(r"\s+", "", out)
        if got_hex != decoded:
            acc.violation(dict(fp, clause="binary-output"), d, f"--out binary printed {got_hex[:60]}..., the decoded bytes are {decoded[:60]}...")
    elif out != want:
        gl, wl = out.splitlines(), want.splitlines()
        i = next((i for i, (a, b) in enumerate(zip(gl, wl)) if a != b), min(len(gl), len(wl)))
        acc.violation(dict(fp, clause="output-differs", what="length" if i >= min(len(gl), len(wl)) else "line"), d, f"{' '.join(argv[:-1])}: line {i}: CLI {gl[i][:140] if i < len(gl) else None!r}, library {wl[i][:140] if i < len(wl) else None!r} ({len(gl)} vs {len(wl)} lines)")


def check_refusal(acc, argv, d, want_words):
    acc.count("evaluations")
    acc.count("cli_runs")
    acc.count("refusals")
    status, out, err = run_cli(argv)
    fp = {"cmd": argv[0], "clause": "refusal"}
    if status == 0 or status == "returned" or (isinstance(status, str) and status.startswith("exc")):
        acc.violation(dict(fp, what="status", got=str(status)), d, f"{' '.join(argv)}: status {status}, expected a refusal with a non-zero status; stderr {err[-160:]}")
    if out.strip():
        acc.violation(dict(fp, what="decodes-anyway"), d, f"{' '.join(argv)}: printed {out[:120]!r} although the request has to be refused")
    if not any(w in err for w in want_words):
        acc.violation(dict(fp, what="no-suggestion"), d, f"{' '.join(argv)}: stderr {err[:200]!r} carries no suggestion ({want_words})")


def run_unit(unit):
    acc = Acc()
    ns = loader.load()
    seed = unit["seed"]
    kind = unit["kind"]
    with Tmp() as tmp:
        if kind == "convert-stream":
            label, msgs, _ = c15.streams(seed)[unit["stream"]]
            cont = unit["container"]
            buf = render(cont, msgs)
            path = tmp.write("in.dat", buf)
            ins = [cont] + (["auto"] if cont != "swtpm-log" else [])
            for fin, fout in itertools.product(ins, ("pretty", "events", "binary")):
                argv = ["convert", "--in", fin, "--out", fout, path]
                acc.count("states")
                acc.shape(("convert", label, cont, fin, fout))
                check_convert(acc, argv, fin, buf, ns.CommandResponseStream, None, fout, {"harness": "cli", "argv": argv[:-1], "file": buf.hex(), "stream": label})
            # several input files: decoded as the concatenation of their contents
            if cont in ("binary", "hex", "swtpm-log") and len(msgs) >= 2:
                parts = [render(cont, msgs[:1]), render(cont, msgs[1:])]
                if len(msgs) >= 4:
                    parts = [render(cont, msgs[:1]), render(cont, msgs[1:3]), render(cont, msgs[3:])]
                paths = [tmp.write("part%d.dat" % i, p) for i, p in enumerate(parts)]
                whole = b"".join(parts)
                for fout in ("pretty", "binary"):
                    argv = ["convert", "--in", cont, "--out", fout] + paths
                    acc.count("states")
                    acc.shape(("convert-multi", label, cont, fout, len(paths)))
                    check_convert(acc, argv, cont, whole, ns.CommandResponseStream, None, fout, {"harness": "cli", "argv": argv[: -len(paths)], "files": [p.hex() for p in parts], "file": whole.hex(), "stream": label})
            # defaults: no --in (auto), no --out (pretty)
            if cont != "swtpm-log":
                acc.count("states")
                check_convert(acc, ["convert", path], "auto", buf, ns.CommandResponseStream, None, "pretty", {"harness": "cli", "argv": ["convert"], "file": buf.hex(), "stream": label})
                check_convert(acc, ["co", "--type", "CommandResponseStream", path], "auto", buf, ns.CommandResponseStream, None, "pretty", {"harness": "cli", "argv": ["co", "--type", "CommandResponseStream"], "file": buf.hex(), "stream": label})
        elif kind == "convert-typed":
            label, root, ccname, b = typed_files(seed)[unit["file"]]
            for cont in ("binary", "hex"):
                buf = render(cont, [b])
                path = tmp.write("in.dat", buf)
                wrong_type = "Response" if root != "Response" else "Command"
                for tname in (root, wrong_type, "TPMS_TIME_INFO"):
                    T = ns.TYPES[tname]
                    cmds = [None]
                    if tname == "Response":
                        cmds = [ccname or "GetRandom", "Startup", "CreatePrimary"]
                    for cmd in cmds:
                        for fout in ("pretty", "events", "binary"):
                            argv = ["convert", "--in", cont, "--out", fout, "--type", tname] + (["--command", cmd] if cmd else []) + [path]
                            cc = ns.CC[V.C()[cmd]["cc"]] if cmd else None
                            acc.count("states")
                            acc.shape(("typed", label, cont, tname, cmd, fout))
                            check_convert(acc, argv, cont, buf, T, cc, fout, {"harness": "cli", "argv": argv[:-1], "file": buf.hex(), "what": label})
                # --command is ignored for non-response types
                argv = ["convert", "--in", cont, "--type", root if root != "Response" else "Command", "--command", "Startup", path]
                check_convert(acc, argv, cont, buf, ns.TYPES[root if root != "Response" else "Command"], None, "pretty", {"harness": "cli", "argv": argv[:-1], "file": buf.hex(), "what": label})
                # refusals
                d = {"harness": "cli", "file": buf.hex(), "what": label}
                for bad in (root[:-1] + "X", root.lower(), "Comand", "TPM2B_IV(", "list[BYTE", "*INT32", "TPMS_.*"):
                    argv = ["convert", "--in", cont, "--type", bad, path]
                    check_refusal(acc, argv, dict(d, argv=argv[:-1]), ("Did you mean",))
                argv = ["convert", "--in", cont, "--type", "Response", path]
                check_refusal(acc, argv, dict(d, argv=argv[:-1]), ("requires --command", "Did you mean"))
                for badc in ("GetRandm", "getrandom", "TPM_CC.GetRandom", "GetRandom(", "+Startup", "Get[Random"):
                    argv = ["convert", "--in", cont, "--type", "Response", "--command", badc, path]
                    check_refusal(acc, argv, dict(d, argv=argv[:-1]), ("Did you mean",))
        elif kind == "type":
            label, root, ccname, b = typed_files(seed)[unit["file"]]
            from tpmstream.spec import all_types

            for cont in ("binary", "hex"):
                buf = render(cont, [b])
                path = tmp.write("in.dat", buf)
                want = []
                known_crash = None
                for T in all_types:
                    if T is ns.CommandResponseStream or T.__name__.startswith("TPMU"):
                        continue
                    for cc in (list(ns.TPM_CC) if T is ns.Response else [None]):
                        loader.cache_clear()
                        r = impl.run(T, b, cc=cc, strict=True)
                        if r.kind == "Done":
                            want.append(f"Response ({cc})" if T is ns.Response else T.__name__)
                        elif r.kind.startswith("ESCAPE"):
                            known_crash = r.kind
                acc.count("evaluations")
                acc.count("cli_runs")
                acc.count("states")
                acc.shape(("type", label, cont))
                argv = ["type", "--in", cont, path]
                if cont == "binary" and not known_crash:
                    # the default (--in auto) must list the same types whenever auto-detection takes the file for binary
                    # what auto-detection does with this file, by its documented rule: pcapng magic, two hex digits, else binary
                    import re as _re

                    detected = "pcapng" if buf[:2] == b"\x0a\x0d" else "hex" if _re.match(rb"[0-9a-fA-F]{2}", buf[:2]) else "binary" if len(buf) >= 2 else None
                    if detected == "binary":
                        for av in (["type", path], ["type", "--in", "auto", path]):
                            acc.count("evaluations")
                            acc.count("cli_runs")
                            st_a, out_a, err_a = run_cli(av)
                            got_a = [l for l in out_a.splitlines() if l.strip()]
                            if st_a != 0 or sorted(got_a) != sorted(want):
                                acc.violation({"cmd": "type", "clause": "listing-under-auto", "status": str(st_a)}, {"harness": "cli", "argv": av[:-1], "file": buf.hex(), "what": label}, f"type (auto-detected binary): status {st_a}, lists {len(got_a)} entries, the library accepts {len(want)}: missing {sorted(set(want) - set(got_a))[:4]}, extra {sorted(set(got_a) - set(want))[:4]}; stderr {err_a[-120:]}")
                status, out, err = run_cli(argv)
                d = {"harness": "cli", "argv": argv[:-1], "file": buf.hex(), "what": label}
                got = [l for l in out.splitlines() if l.strip()]
                if known_crash:
                    acc.count("type_inputs_with_strict_internal_error")
                    continue
                if status != 0:
                    acc.violation({"cmd": "type", "clause": "status", "got": str(status)}, d, f"type: status {status}; stderr {err[-200:]}")
                elif sorted(got) != sorted(want):
                    acc.violation({"cmd": "type", "clause": "listing", "extra": len(set(got) - set(want)), "missing": len(set(want) - set(got))}, d, f"type lists {sorted(set(got) - set(want))[:5]} which do not decode strictly / omits {sorted(set(want) - set(got))[:5]} ({len(got)} vs {len(want)} entries)")
                if root not in ("Response",) and root in want and root not in got:
                    acc.violation({"cmd": "type", "clause": "own-type-missing"}, d, f"the encoding of a {root} is not listed as {root}: {got[:6]}")
        elif kind == "example":
            check_example(acc, unit["what"])
        elif kind == "example-refuse":
            for bad in ("GetRandm", "TPMT_PUBLIK", "startup"):
                check_refusal(acc, ["example", bad], {"harness": "cli", "argv": ["example", bad]}, ("Did you mean",))
            acc.count("evaluations")
            acc.count("cli_runs")
            status, out, err = run_cli(["example"])
            names = out.split()
            if status != 0 or sorted(names) != sorted(V.C()):
                acc.violation({"cmd": "example", "clause": "listing"}, {"harness": "cli", "argv": ["example"]}, f"`example` without argument: status {status}, {len(names)} names, {len(V.C())} command codes")
        elif kind == "subprocess":
            st = c09.pair("Startup", "plain", seed)
            path = tmp.write("su.bin", st[0])
            env = dict(os.environ, PYTHONPATH=loader.SRC)
            for argv, want_zero, words in (
                (["convert", "--in", "binary", "--type", "Command", path], True, ()),
                (["convert", "--in", "binary", "--type", "Comand", path], False, ("Did you mean",)),
                (["convert", "--in", "binary", "--type", "Response", path], False, ("requires --command",)),
                (["convert", "--in", "binary", "--type", "Response", "--command", "Startp", path], False, ("Did you mean",)),
                (["type", "--in", "binary", path], True, ()),
            ):
                acc.count("evaluations")
                acc.count("subprocesses")
                acc.count("states")
                r = subprocess.run([sys.executable, "-m", "tpmstream"] + argv, capture_output=True, text=True, env=env, timeout=300)
                d = {"harness": "cli-subprocess", "argv": argv[:-1], "file": st[0].hex()}
                if (r.returncode == 0) != want_zero:
                    acc.violation({"cmd": argv[0], "clause": "process-exit-status", "want_zero": want_zero}, d, f"python -m tpmstream {' '.join(argv[:-1])}: exit status {r.returncode}; stderr {r.stderr[-200:]}")
                if words and not any(w in r.stderr for w in words):
                    acc.violation({"cmd": argv[0], "clause": "process-no-suggestion"}, d, f"stderr {r.stderr[:200]!r}")
                if not want_zero and r.stdout.strip():
                    acc.violation({"cmd": argv[0], "clause": "process-decodes-anyway"}, d, f"stdout {r.stdout[:120]!r}")
                if want_zero and argv[0] == "convert":
                    want, _, _ = expected_convert("binary", st[0], ns.Command, None, "pretty")
                    if ANSI.sub("", r.stdout) != want:
                        acc.violation({"cmd": "convert", "clause": "process-output-differs"}, d, "subprocess output differs from the library's rendering")
            # standard input fed in two pieces with a pause in between (a slow producer on a pipe)
            import time as _time

            data2 = st[0] + st[1]
            acc.count("evaluations")
            acc.count("subprocesses")
            acc.count("states")
            pr = subprocess.Popen([sys.executable, "-m", "tpmstream", "convert", "--in", "binary", "--out", "binary", "-"], stdin=subprocess.PIPE, stdout=subprocess.PIPE, stderr=subprocess.PIPE, env=env)
            _time.sleep(1.5)  # let the tool start and block in its first read
            pr.stdin.write(data2[:7])
            pr.stdin.flush()
            _time.sleep(0.7)
            try:
                pr.stdin.write(data2[7:])
                pr.stdin.close()
            except BrokenPipeError:
                pass  # the tool stopped reading after the first piece: reported below (its output is incomplete)
            so = pr.stdout.read()
            se = pr.stderr.read()
            pr.wait(timeout=120)
            got_hex = re.sub(r"\s+", "", so.decode())
            if pr.returncode != 0 or got_hex != data2.hex():
                acc.violation({"cmd": "convert", "clause": "process-stdin-in-pieces"}, {"harness": "cli-subprocess", "argv": ["convert", "--in", "binary", "--out", "binary", "-"], "file": data2.hex()}, f"standard input delivered in two pieces: exit status {pr.returncode}, decoded {got_hex[:40]}... of {data2.hex()[:40]}...; stderr {se.decode()[-160:]}")
            # standard input ("-") as the file, binary and hex
            for fin, data in (("binary", st[0] + st[1]), ("hex", text.hex_text(st[0] + st[1], "lower", " ", None, "", "\n"))):
                acc.count("evaluations")
                acc.count("subprocesses")
                acc.count("states")
                r = subprocess.run([sys.executable, "-m", "tpmstream", "convert", "--in", fin, "-"], input=data, capture_output=True, env=env, timeout=300)
                want, _, _ = expected_convert(fin, data, ns.CommandResponseStream, None, "pretty")
                d = {"harness": "cli-subprocess", "argv": ["convert", "--in", fin, "-"], "file": data.hex()}
                if r.returncode != 0 or ANSI.sub("", r.stdout.decode()) != want:
                    acc.violation({"cmd": "convert", "clause": "process-stdin", "in": fin}, d, f"convert --in {fin} - (standard input): exit status {r.returncode}, output {'equal' if ANSI.sub('', r.stdout.decode()) == want else 'differs from the library'}; stderr {r.stderr.decode()[-160:]}")
    acc.count("transitions", acc.n["cli_runs"] + acc.n["subprocesses"])
    acc.sample({"unit": unit["label"], "cli_runs": acc.n["cli_runs"]}, cap=4)
    return acc


def check_example(acc, what):
    """every block printed by `example X` belongs to X and re-decodes to what is shown"""
    ns = loader.load()
    from tpmstream.io.pretty import Pretty

    is_cc = what in V.C()
    acc.count("evaluations")
    acc.count("cli_runs")
    acc.count("states")
    status, out, err = run_cli(["example", what])
    d = {"harness": "cli", "argv": ["example", what]}
    if status != 0:
        acc.violation({"cmd": "example", "clause": "status", "got": str(status)}, d, f"example {what}: status {status}; stderr {err[-300:]}")
        return
    blocks = [b for b in out.split("\n\n") if b.strip()]
    acc.count("example_blocks", len(blocks))
    acc.shape(("example", what, len(blocks)))
    ccnum = V.C()[what]["cc"] if is_cc else None
    seen = set()
    for blk in blocks:
        lines = blk.strip("\n").split("\n")
        head = lines[0]
        m = re.match(r"^(\w+):((?: [0-9a-f]*)*)$", head)
        if not m:
            acc.violation({"cmd": "example", "clause": "block-header"}, dict(d, block=head[:120]), f"cannot read block header {head[:120]!r}")
            continue
        tname, hx = m.group(1), re.sub(r"\s+", "", m.group(2))
        b = bytes.fromhex(hx)
        if b in seen:
            acc.violation({"cmd": "example", "clause": "duplicate-block"}, dict(d, block=head[:80]), "the same bytes are printed twice")
        seen.add(b)
        acc.count("evaluations")
        if is_cc:
            if tname not in ("Command", "Response"):
                acc.violation({"cmd": "example", "clause": "foreign-block", "kind": "type"}, dict(d, block=head[:120]), f"example {what} printed a {tname}")
                continue
            if tname == "Command" and int.from_bytes(b[6:10], "big") != ccnum:
                acc.violation({"cmd": "example", "clause": "foreign-block", "kind": "command-code"}, dict(d, block=head[:120]), f"example {what} printed a command with code {int.from_bytes(b[6:10], 'big'):#x}")
                continue
        elif tname != what:
            acc.violation({"cmd": "example", "clause": "foreign-block", "kind": "type"}, dict(d, block=head[:120]), f"example {what} printed a {tname}")
            continue
        # re-decode under the printed type and compare the rows
        shown = lines[1:]
        ok = False
        tried = []
        for enc in ((None, True) if tname == "Response" else (None,)):
            loader.cache_clear()
            r = impl.run(tname, b, cc=ccnum if tname == "Response" else None, enc=enc, strict=False, keep_raw=True)
            if r.kind != "Done":
                tried.append(r.kind)
                continue
            # the bundled captures contain a few messages with an out-of-range value (e.g. a ReadPublic of handle 0);
            # `example` shows the fields of such a message without the warning: value warnings are not part of
            # "what is shown" (D14); any other warning changes the field rows and is caught by the comparison
            if any(e[0] == "W" and e[1] != "Value" for e in r.events):
                tried.append("re-decoding reports " + ",".join(sorted({e[1] for e in r.events if e[0] == "W"})))
                continue
            want = [ANSI.sub("", l) for l in Pretty.unmarshal(e for e in r.raw if isinstance(e, ns.MarshalEvent))]
            if want == shown:
                ok = True
                break
            i = next((i for i, (a, c) in enumerate(zip(shown, want)) if a != c), min(len(shown), len(want)))
            tried.append(f"line {i}: shown {shown[i][:100] if i < len(shown) else None!r} / re-decoded {want[i][:100] if i < len(want) else None!r}")
        if not ok:
            acc.violation({"cmd": "example", "clause": "block-does-not-redecode", "type": tname if tname in ("Command", "Response") else "struct"}, dict(d, block=head[:200]), f"example {what}: block {head[:60]} does not re-decode to what is shown: {tried[:2]}")
    if not blocks:
        acc.count("example_without_blocks")


def finish(acc, tier, seed):
    if acc.n["cli_runs"] == 0 or acc.n["refusals"] == 0 or acc.n["example_blocks"] == 0:
        acc.violation({"clause": "vacuous"}, {"harness": "finish"}, "no CLI run / refusal / example block")
    n = acc.n["evaluations"]
    return {
        "states": acc.n["states"],
        "transitions": acc.n["transitions"],
        "traces_validated_against_impl": acc.n["cli_runs"] + acc.n["subprocesses"],
        "evaluations": n,
        "distinct_nontrivial": len(acc.shapes),
        "rule": "a state is one command-line configuration (sub-command, file content x container, --in, --out, --type, --command); every configuration of the stated product is executed once and compared with the library; example: every printed block is a further evaluation; distinct = distinct configurations",
        "cli_runs": acc.n["cli_runs"],
        "subprocesses": acc.n["subprocesses"],
        "refusals": acc.n["refusals"],
        "example_blocks": acc.n["example_blocks"],
        "exhaustive": True,
    }


def replay(case):
    acc = Acc()
    ns = loader.load()
    argv = list(case.get("argv", []))
    if case.get("harness") == "cli-subprocess":
        a = run_unit({"kind": "subprocess", "label": "replay", "seed": 0, "tier": "quick"})
        return [(v["fp"], v["case"], v["detail"]) for v in a.viol.values()]
    if argv[:1] == ["example"]:
        if len(argv) > 1 and (argv[1] in V.C() or argv[1] in ns.TYPES):
            check_example(acc, argv[1])
        else:
            a = run_unit({"kind": "example-refuse", "label": "replay", "seed": 0, "tier": "quick"})
            return [(v["fp"], v["case"], v["detail"]) for v in a.viol.values()]
        return [(v["fp"], v["case"], v["detail"]) for v in acc.viol.values()]
    with Tmp() as tmp:
        buf = bytes.fromhex(case["file"])
        if case.get("files"):
            full = argv + [tmp.write("part%d.dat" % i, bytes.fromhex(h)) for i, h in enumerate(case["files"])]
        else:
            full = argv + [tmp.write("in.dat", buf)]
        if argv[0] in ("convert", "co"):
            opt = lambda o, dflt=None: argv[argv.index(o) + 1] if o in argv else dflt  # noqa: E731
            tname, cmd = opt("--type"), opt("--command")
            T = ns.TYPES.get(tname) if tname else ns.CommandResponseStream
            if T is None or (T is ns.Response and (cmd is None or cmd not in V.C())):
                check_refusal(acc, full, case, ("Did you mean", "requires --command"))
            else:
                cc = ns.CC[V.C()[cmd]["cc"]] if (cmd and T is ns.Response) else None
                check_convert(acc, full, opt("--in", "auto"), buf, T, cc, opt("--out", "pretty"), case)
        else:
            a = Acc()
            for j, f in enumerate(typed_files(0)):
                if f[0] == case.get("what"):
                    a = run_unit({"kind": "type", "file": j, "label": "replay", "seed": 0, "tier": "quick"})
            return [(v["fp"], v["case"], v["detail"]) for v in a.viol.values()]
    return [(v["fp"], v["case"], v["detail"]) for v in acc.viol.values()]
