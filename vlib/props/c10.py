"""C10  Decoding is incremental: one byte of look-ahead, prefix-stable, source-agnostic (crash-point enumeration)."""
from .. import bscope, cases, impl, loader, oracle
from ..ref import values as V
from ..runner import Acc

LEVEL = "fault_enumeration"
ASSUMPTIONS = [
    "look-ahead is measured with a counting iterator passed as the buffer: pulls at the moment an event is yielded minus the widths (pinned) of the primitive events yielded so far",
    "base cases: every root in a minimal and a rich variant, every command code as command / response / stream in several session configurations (quick: 0 deviations, thorough: <= 1); every cut point of each",
    "byte sources compared: bytes, bytearray, list, iterator, generator, counting iterator",
]


B_STRICT = ('look-ahead', 'prefix-stability', 'pulled')
B_WARN = ()


def units(tier, seed):
    us = cases.fault_units(tier, seed, with_prims=True)
    for u in us:
        u["seed"], u["tier"] = seed, tier
    us += bscope.units(tier, seed)
    for i in range(5):
        us.append({"kind": "front-sources", "stream": i, "label": f"front-sources:{i}", "seed": seed, "tier": tier})
        us.append({"kind": "file-sources", "stream": i, "label": f"file-sources:{i}", "seed": seed, "tier": tier})
    return us


def stepwise(root, b, cc, enc, strict=True):
    """-> (events, pulled-at-each-event, kind, details, pulled-at-end)"""
    ns = loader.load()
    src = impl.Counting(b)
    kw = {}
    if cc is not None:
        kw["command_code"] = ns.CC[cc]
    if enc:
        kw["parameter_encryption"] = True
    g = ns.Binary.marshal(tpm_type=ns.TYPES[root], buffer=src, abort_on_error=strict, **kw)
    evs, pulls, exhausted = [], [], []
    kind, det = "Done", {}
    try:
        for e in g:
            evs.append(impl.norm_ev(e))
            pulls.append(src.pulled)
            exhausted.append(src.after_end > 0)
            if len(evs) > 100000:
                kind = "GUARD"
                break
    except Exception as e:  # noqa: BLE001
        kind, det = impl.norm_err(e)
    return evs, pulls, exhausted, kind, det, src


def gens(b):
    def g():
        for x in b:
            yield x

    return [
        ("bytes", lambda: bytes(b)),
        ("bytearray", lambda: bytearray(b)),
        ("list", lambda: list(b)),
        ("iterator", lambda: iter(bytes(b))),
        ("generator", g),
        ("tuple", lambda: tuple(b)),
    ]


def check_case(acc, case, unit):
    loader.cache_clear()
    d0 = dict(case.desc(), harness="incremental", base_input=case.b.hex())
    rc = oracle.rootclass(case.root)
    whole, pulls, exh, kind, det, src = stepwise(case.root, case.b, case.cc, case.enc)
    acc.count("evaluations")
    if kind != "Done":
        acc.count("skipped_base_not_accepted")
        return
    # cumulative end offsets of the primitive events of the whole input
    ends, off = [], 0
    for e in whole:
        if e[0] == "E" and e[3] != "...":
            off += V.width(e[2])
        ends.append(off)
    n = len(case.b)
    # message boundaries of a stream: offsets at which a root event is emitted, and the end
    boundaries = {n}
    for i, e in enumerate(whole):
        if e[0] == "E" and e[1] == "" and e[3] == "...":
            boundaries.add(ends[i])

    def lookahead(evs, pl, ex, cut, d):
        o = 0
        for i, e in enumerate(evs):
            if e[0] == "E" and e[3] != "...":
                o += V.width(e[2])
            la = pl[i] - o
            if la not in (0, 1) or (la == 0 and o < cut and not ex[i]):
                # la == 0 is only possible when nothing more could be pulled (source exhausted) or before the first pull
                if la == 0 and pl[i] == 0:
                    continue
                acc.violation({"clause": "look-ahead", "root": rc, "ahead": max(-1, min(la, 3))}, d, f"event {i} {e[:3]}: {pl[i]} bytes pulled, {o} bytes in the fields emitted so far (cut {cut} of {n})", size=cut)
                return

    lookahead(whole, pulls, exh, n, d0)
    if src.pulled != n:
        acc.violation({"clause": "pulled-total", "root": rc}, d0, f"pulled {src.pulled} of {n}")
    acc.shape((case.root, len(whole), n))
    for cut in range(n):
        loader.cache_clear()
        p = case.b[:cut]
        evs, pl, ex, k, dt, s = stepwise(case.root, p, case.cc, case.enc)
        acc.count("evaluations")
        acc.count("cuts")
        d = dict(d0, input=p.hex(), fault={"fault": "cut", "at": cut})
        if k.startswith("ESCAPE"):
            acc.violation({"clause": "prefix-raises", "root": rc, "exc": k}, d, f"{k} {dt}", size=cut)
            continue
        if evs != whole[: len(evs)]:
            i, got, want = oracle.first_diff(evs, whole[: len(evs)])
            acc.violation({"clause": "prefix-stability", "root": rc}, d, f"cut {cut} of {n}: event {i} is {got}, the whole input gives {want}", size=cut)
            continue
        lookahead(evs, pl, ex, cut, d)
        if s.pulled != cut:
            acc.violation({"clause": "prefix-pulled", "root": rc}, d, f"pulled {s.pulled} of {cut}", size=cut)
        # every field complete in the prefix is emitted before the depleted error
        nprim = sum(1 for e in evs if e[0] == "E" and e[3] != "...")
        complete = sum(1 for i, e in enumerate(whole) if e[0] == "E" and e[3] != "..." and ends[i] <= cut)
        if k == "Depleted" and nprim != complete:
            acc.violation({"clause": "complete-fields-before-depleted", "root": rc, "sign": "fewer" if nprim < complete else "more"}, d, f"cut {cut} of {n}: {nprim} fields emitted, {complete} are complete in the prefix", size=cut)
        if k == "Done" and (case.root != "CommandResponseStream" or cut not in boundaries):
            acc.violation({"clause": "prefix-accepted", "root": rc}, d, f"a proper prefix ({cut} of {n}) was accepted", size=cut)
        # exactly the events that need no further byte: everything before the first field that ends behind the cut
        j = next((i for i, e in enumerate(whole) if e[0] == "E" and e[3] != "..." and ends[i] > cut), len(whole))
        exp = whole[:j]
        if case.root == "CommandResponseStream" and cut in boundaries and exp and exp[-1][1] == "" and exp[-1][3] == "...":
            exp = exp[:-1]  # the root event of the next message is withheld when the input ends at a boundary
        if k in ("Depleted", "Done") and evs != exp:
            acc.violation({"clause": "events-of-prefix", "root": rc, "sign": "fewer" if len(evs) < len(exp) else "more"}, d, f"cut {cut} of {n}: {len(evs)} events emitted, {len(exp)} events need no byte behind the cut (next expected: {exp[len(evs)][:3] if len(evs) < len(exp) else None})", size=cut)
    # source-agnostic: whole input and one interior prefix, both modes
    mid = n // 2
    for inp in ((case.b, n), (case.b[:mid], mid)) if n else ((case.b, 0),):
        for strict in (True, False):
            base = None
            for name, mk in gens(inp[0]):
                loader.cache_clear()
                r = impl.run(case.root, inp[0], cc=case.cc, enc=case.enc, strict=strict, source=mk())
                acc.count("evaluations")
                acc.count("source_runs")
                res = (r.events, r.kind, r.details if not r.kind.startswith("ESCAPE") else None)
                if base is None:
                    base = res
                elif res != base:
                    acc.violation({"clause": "source-dependent", "root": rc, "source": name, "mode": "strict" if strict else "warn"}, dict(d0, input=inp[0].hex(), source=name, strict=strict), f"decoding from a {name} gives {r.kind} / {len(r.events)} events, from bytes {base[1]} / {len(base[0])} events", size=inp[1])


def front_sources(acc, unit):
    """hex / swtpm-log front-ends: every cut of the text, from every kind of byte source: same result, and
    incremental (the fields complete in the carried prefix are emitted before the text problem surfaces)"""
    from ..ref import text
    from . import c15

    ns = loader.load()
    from tpmstream.io.hex import Hex
    from tpmstream.io.swtpm_log import SWTPMLog

    label, msgs, _ = c15.streams(unit["seed"])[unit["stream"]]
    carried = b"".join(msgs)
    for fname, front, t in (("hex", Hex, text.hex_text(carried, "lower", " ")), ("hex-dense", Hex, text.hex_text(carried, "upper", "")), ("hex-crlf", Hex, text.hex_text(carried, "mixed", "\r\n")), ("swtpm", SWTPMLog, text.swtpm_log([("io", m, "Read" if i % 2 == 0 else "Write") for i, m in enumerate(msgs)], ("log",), per_line=8))):
        for cut in range(len(t) + 1):
            p = t[:cut]
            base = None
            for name, mk in gens(p):
                loader.cache_clear()
                evs, kind = [], "Done"
                try:
                    for e in front.marshal(tpm_type=ns.CommandResponseStream, buffer=mk(), abort_on_error=True):
                        evs.append(impl.norm_ev(e))
                except ValueError:
                    kind = "ValueError"
                except Exception as e:  # noqa: BLE001
                    kind = impl.norm_err(e)[0]
                acc.count("evaluations")
                acc.count("source_runs")
                if base is None:
                    base = (evs, kind)
                elif (evs, kind) != base:
                    acc.violation({"clause": "source-dependent", "front": fname.split("-")[0], "source": name}, {"harness": "front-sources", "front": fname, "stream": unit["stream"], "cut": cut, "input": p.hex(), "source": name}, f"{fname} text cut at {cut}: from a {name}: {kind} / {len(evs)} events, from bytes: {base[1]} / {len(base[0])} events", size=cut)
            acc.count("cuts")
            acc.shape((fname, unit["stream"], cut))
            # incremental: the reference automaton says which carried bytes the text prefix contains and how the text
            # ends; a clean end -> exactly the decode of those bytes; a text problem surfaces when the pump pulls its
            # look-ahead byte, i.e. before the events of the last complete byte are out -> exactly the events of the
            # bytes before it
            ref = text.RefHex if fname.startswith("hex") else text.RefSwtpm
            st, have = ref.init, []
            for c in p:
                st, o = ref.step(st, c)
                have += o
            have = bytes(have)
            eof = ref.eof(st) if st[0] != "OUT" else "any"
            want = None
            if eof in ("end", "ValueError"):
                # front-end == binary decoder over (reference automaton): the carried bytes, then a clean end or ValueError
                def src(have=have, eof=eof):
                    yield from have
                    if eof == "ValueError":
                        raise ValueError("text problem")

                loader.cache_clear()
                evs, kind = [], "Done"
                try:
                    for e in ns.Binary.marshal(tpm_type=ns.CommandResponseStream, buffer=src(), abort_on_error=True):
                        evs.append(impl.norm_ev(e))
                except ValueError:
                    kind = "ValueError"
                except Exception as e:  # noqa: BLE001
                    kind = impl.norm_err(e)[0]
                want = (evs, kind)
            if want is not None and base != want:
                acc.violation({"clause": "front-end-not-incremental", "front": fname.split("-")[0], "text_ends": eof}, {"harness": "front-sources", "front": fname, "stream": unit["stream"], "cut": cut, "input": p.hex()}, f"{fname} text cut at {cut} (carries {len(have)} complete bytes, text ends: {eof}): {base[1]} after {len(base[0])} events, expected {want[1]} after {len(want[0])} events", size=cut)


def file_sources(acc, unit):
    """io.bytes_from_files over files whose data arrives in pieces (a pipe, a slow writer): every way of delivering a
    stream in two pieces, and one message per read - the bytes supplied must be all the bytes written"""
    import io

    from . import c15

    loader.load()
    from tpmstream.io import bytes_from_files

    class Pieces(io.RawIOBase):
        def __init__(self, parts):
            self.parts = [bytes(p) for p in parts if p]
            self.mode = "rb"

        def readable(self):
            return True

        def readinto(self, b):
            if not self.parts:
                return 0
            p = self.parts[0]
            n = min(len(b), len(p))
            b[:n] = p[:n]
            if n == len(p):
                self.parts.pop(0)
            else:
                self.parts[0] = p[n:]
            return n

    label, msgs, _ = c15.streams(unit["seed"])[unit["stream"]]
    data = b"".join(msgs)
    splits = [[data[:i], data[i:]] for i in range(len(data) + 1)] + [list(msgs)] + [[bytes([x]) for x in data]]
    for parts in splits:
        for nfiles in (1, 2):
            acc.count("evaluations")
            acc.count("source_runs")
            if nfiles == 1:
                files = [io.BufferedReader(Pieces(parts))]
            else:
                files = [io.BufferedReader(Pieces(parts[:1])), io.BufferedReader(Pieces(parts[1:]))]
            try:
                got = bytes(bytes_from_files(files))
            except Exception as e:  # noqa: BLE001
                got = "ESCAPE:" + type(e).__name__
            acc.shape(("file-source", unit["stream"], len(parts[0]), nfiles))
            if got != data:
                acc.violation({"clause": "file-source-loses-bytes", "files": nfiles}, {"harness": "file-sources", "stream": unit["stream"], "pieces": [p.hex() for p in parts][:4], "files": nfiles}, f"a file delivering {len(data)} bytes in {len(parts)} piece(s) ({nfiles} file(s)) supplied {len(got) if isinstance(got, bytes) else got} bytes", size=len(parts[0]))
    acc.sample({"unit": unit["label"], "deliveries": len(splits) * 2, "what": "every two-piece delivery, one message per read, one byte per read"}, cap=1)


def run_unit(unit):
    if unit["kind"] == "file-sources":
        acc = Acc()
        file_sources(acc, unit)
        return acc
    if unit["kind"] == "front-sources":
        acc = Acc()
        loader.load()
        front_sources(acc, unit)
        acc.sample({"unit": unit["label"], "what": "every cut of the hex / swtpm text from six kinds of byte source"}, cap=2)
        return acc
    if unit["kind"] == "bscope":
        return bscope.run_b_unit(unit, strict_own=B_STRICT, warn_props=B_WARN)
    acc = Acc()
    loader.load()
    cases.explore_unit(unit, unit["seed"], lambda c: check_case(acc, c, unit), acc)
    c = cases.replay_case(unit, unit["seed"], ())
    acc.sample({"unit": unit["label"], "input": c.b.hex()[:80], "cuts": len(c.b)}, cap=2)
    return acc


def finish(acc, tier, seed):
    if acc.n["cuts"] == 0:
        acc.violation({"clause": "vacuous"}, {"harness": "finish"}, "no cut point explored")
    return {
        "evaluations": acc.n["evaluations"],
        "distinct_nontrivial": len(acc.shapes),
        "rule": "every base case decoded step-wise with a counting source, then every cut point 0..len-1 of it; whole input and one interior prefix from six kinds of byte source in both modes; distinct = distinct (root, number of events, length) base cases",
        "cut_points": acc.n["cuts"],
        "source_runs": acc.n["source_runs"],
        "caps_hit": acc.n["caps_hit"],
        "exhaustive": acc.n["caps_hit"] == 0,
    }


def replay(case):
    if case.get("harness") == "bytestep":
        return bscope.replay(case, strict_own=B_STRICT, warn_props=B_WARN)
    acc = Acc()
    loader.load()
    # replay needs the whole base case: recover it from the recorded unit-independent description
    c = cases.Case(case["root"], bytes.fromhex(case.get("base_input", case["input"])), case.get("cc"), case.get("enc"))
    check_case(acc, c, {"seed": 0, "tier": "quick"})
    return [(v["fp"], v["case"], v["detail"]) for v in acc.viol.values()]
