"""C20  The layout tables are coherent and match the pinned TPM 2.0 layout (DESIGN 6, engine E)."""
import re
from dataclasses import fields
from typing import Any

from .. import loader, snapshot
from ..runner import Acc

LEVEL = "exploration"
ASSUMPTIONS = [
    "vlib/pinned/layout.json is the pinned TPM 2.0 layout (generated once from the tree after the fix: commits, reviewed by hand)",
    "dict literals with duplicate keys are invisible to a check of the live tables (Python keeps the last); 'named after it' catches the resulting mismatch",
]


def units(tier, seed):
    return [{"kind": "coherence"}, {"kind": "pin"}]


def snapshot_tname(t):
    ns = loader.load()
    if ns.is_list(t):
        return {"list": t.__args__[0].__name__}
    return None if t is None else t.__name__


def _norm(s):
    return re.sub(r"[^A-Za-z0-9]", "", s).upper()


def coherence(acc):
    ns = loader.load()
    is_list = ns.is_list
    ccs = list(ns.TPM_CC)
    tables = {
        "ch": (ns.command_handle_types, "TPMS_COMMAND_HANDLES_"),
        "cp": (ns.command_param_types, "TPMS_COMMAND_PARAMS_"),
        "rh": (ns.response_handle_types, "TPMS_RESPONSE_HANDLES_"),
        "rp": (ns.response_param_types, "TPMS_RESPONSE_PARAMS_"),
    }
    # clause 1: one layout per code and table, named after the code
    for tk, (table, prefix) in tables.items():
        keys = sorted(int(k) for k in table)
        want = sorted(int(c) for c in ccs)
        acc.count("evaluations")
        if keys != want:
            acc.violation({"clause": "table-keys", "table": tk}, {"harness": "coherence"}, f"{tk}: keys {set(keys) ^ set(want)} differ from TPM_CC")
        seen = {}
        for cc in ccs:
            acc.count("evaluations")
            acc.shape(("area", tk, int(cc)))
            t = table.get(cc)
            if t is None:
                continue
            name = t.__name__
            if not name.startswith(prefix) or _norm(name[len(prefix):]) != _norm(cc._name):
                acc.violation(
                    {"clause": "area-name", "table": tk, "cc": cc._name},
                    {"harness": "coherence"},
                    f"{tk}[{cc._name}] is {name}, expected {prefix}{_norm(cc._name)} (modulo underscores)",
                )
            if id(t) in seen:
                acc.violation({"clause": "area-shared", "table": tk, "cc": cc._name}, {"harness": "coherence"}, f"{name} serves {seen[id(t)]} and {cc._name}")
            seen[id(t)] = cc._name
            # clause 2: handle areas: at most three 4-byte handles
            if tk in ("ch", "rh"):
                fs = fields(t)
                ok = len(fs) <= 3 and all(hasattr(f.type, "_int_size") and f.type._int_size == 4 for f in fs)
                if not ok:
                    acc.violation({"clause": "handle-area", "table": tk, "cc": cc._name}, {"harness": "coherence"}, f"{name}: {[(f.name, getattr(f.type, '__name__', f.type)) for f in fs]}")
    # Command / Response frames use the tables
    for frame, want in ((ns.Command, ("ch", "cp")), (ns.Response, ("rh", "rp"))):
        acc.count("evaluations")
        tm = frame._type_maps
        if tm.get("handles") is not tables[want[0]][0] or tm.get("parameters") is not tables[want[1]][0]:
            acc.violation({"clause": "frame-type-maps", "frame": frame.__name__}, {"harness": "coherence"}, "frame does not use its tables")
    alltypes = list(ns.structures_types) + [t for t in ns.command_response_types if t not in (ns.Command, ns.Response, ns.CommandResponseStream)] + [ns.TPM2B_ENCRYPTED_PARAM]
    # unions that some structure (or another reachable union) uses as a field type
    used_unions = set()
    for t in alltypes:
        if not hasattr(t, "_int_size") and not hasattr(t, "_selected_by"):
            for f in fields(t):
                if hasattr(f.type, "_selected_by"):
                    used_unions.add(f.type)
    for t in alltypes:
        if hasattr(t, "_int_size"):
            continue
        fs = fields(t)
        name = t.__name__
        is_union = hasattr(t, "_selected_by")
        acc.count("evaluations")
        acc.shape(("type", name))
        # clause 3: counted list directly follows its unsigned count
        if not is_union:
            for i, f in enumerate(fs):
                if is_list(f.type):
                    acc.count("evaluations")
                    prev = fs[i - 1].type if i else None
                    if prev is None or not hasattr(prev, "_int_size") or prev._signed:
                        acc.violation({"clause": "list-count", "type": name, "field": f.name}, {"harness": "coherence"}, f"{name}.{f.name}: list does not follow an unsigned count ({getattr(prev, '__name__', prev)})")
            if name.startswith("TPM2B") and (len(fs) != 2 or not hasattr(fs[0].type, "_int_size") or fs[0].type._signed):
                acc.violation({"clause": "tpm2b-shape", "type": name}, {"harness": "coherence"}, f"{name}: not (unsigned size, payload)")
        # clause 4: union field has an earlier selector whose every valid value selects a member
        sel = getattr(t, "_selectors", None)
        for i, f in enumerate(fs):
            if hasattr(f.type, "_selected_by") and not is_union:
                acc.count("evaluations")
                sname = (sel or {}).get(f.name)
                idx = next((j for j, g in enumerate(fs) if g.name == sname), None)
                if sname is None or idx is None or idx >= i or not hasattr(fs[idx].type, "_int_size"):
                    acc.violation({"clause": "selector-missing", "type": name, "field": f.name}, {"harness": "coherence"}, f"{name}.{f.name}: selector {sname!r} is not an earlier primitive field")
                    continue
                u = f.type
                keys = list(u._selected_by.values())
                if any(k is None for k in keys):
                    continue
                from ..impl import norm_valid

                for lo, hi in norm_valid(fs[idx].type._valid_values):
                    if hi - lo > 70000:
                        acc.violation({"clause": "selector-unmapped", "type": name, "field": f.name}, {"harness": "coherence"}, f"{name}.{f.name}: selector range {lo}..{hi} without fallback member")
                        continue
                    for v in range(lo, hi + 1):
                        acc.count("evaluations")
                        if not any(v == k for k in keys):
                            acc.violation({"clause": "selector-unmapped", "type": name, "field": f.name}, {"harness": "coherence"}, f"{name}.{f.name}: selector value {v:#x} selects no member of {u.__name__}")
                            break
        if is_union:
            # members named in _selected_by exist; clause 5: list members have their fixed length
            for m in t._selected_by:
                acc.count("evaluations")
                if m not in [f.name for f in fs]:
                    acc.violation({"clause": "union-member", "type": name, "member": m}, {"harness": "coherence"}, f"{name}._selected_by names {m} which is not a field")
            for f in fs:
                if f.name not in t._selected_by:
                    acc.violation({"clause": "union-member-unselectable", "type": name, "member": f.name}, {"harness": "coherence"}, f"{name}.{f.name} has no selector value")
                if is_list(f.type) and t in used_unions:
                    acc.count("evaluations")
                    n = getattr(t, "_list_size", {}).get(f.name)
                    if not isinstance(n, int) or n <= 0:
                        acc.violation({"clause": "union-list-size", "type": name, "member": f.name}, {"harness": "coherence"}, f"{name}.{f.name}: list member without fixed length ({n})")
    # the layout derived for an encrypted parameter area: the pinned fields with the first one replaced by the opaque
    # TPM2B_ENCRYPTED_PARAM, nothing else (101 areas can be encrypted)
    pinS = snapshot.pinned()["structs"]
    for tk in ("cp", "rp"):
        for cc in ccs:
            t = tables[tk][0].get(cc)
            pf = pinS.get(getattr(t, "__name__", ""), {}).get("fields")
            if t is None or not pf or not (isinstance(pf[0][1], str) and pf[0][1].startswith("TPM2B")):
                continue
            acc.count("evaluations")
            acc.shape(("encrypted-layout", tk, int(cc)))
            loader.cache_clear()
            try:
                e = t.encrypted()
                got = [[f.name, snapshot_tname(f.type)] for f in fields(e)]
            except Exception as ex:  # noqa: BLE001
                acc.violation({"clause": "encrypted-layout-raises", "table": tk, "cc": cc._name}, {"harness": "coherence"}, f"{t.__name__}.encrypted(): {type(ex).__name__}: {ex}")
                continue
            want = [[pf[0][0], "TPM2B_ENCRYPTED_PARAM"]] + [list(x) for x in pf[1:]]
            if got != want or e.__name__ != t.__name__:
                acc.violation({"clause": "encrypted-layout", "table": tk, "cc": cc._name}, {"harness": "coherence"}, f"{t.__name__}.encrypted() has fields {got}, expected {want}")
    loader.cache_clear()
    acc.sample({"coherence": "TPM_CC x 4 tables, every struct/tpm2b/union field", "codes": len(ccs), "types": len(alltypes)})


def pin(acc):
    live = snapshot.canon(snapshot.build())
    p = snapshot.pinned()
    for sect in ("primitives", "structs", "commands", "tables"):
        for k in sorted(set(live[sect]) | set(p[sect])):
            acc.count("evaluations")
            acc.shape((sect, k))
            a, b = live[sect].get(k, "<absent>"), p[sect].get(k, "<absent>")
            if a != b:
                d = snapshot.diff(b, a, path=f"{sect}/{k}", limit=4)
                acc.violation({"clause": "pin-diff", "section": sect, "entry": k}, {"harness": "pin", "entry": f"{sect}/{k}"}, "pinned -> live: " + "; ".join(f"{x[0]}: {x[1]!r} -> {x[2]!r}" for x in d)[:500])
    nvals = sum(len(v["valid"]) for v in live["primitives"].values())
    nfields = sum(len(v["fields"]) for v in live["structs"].values())
    acc.count("pin_valid_entries", nvals)
    acc.count("pin_fields", nfields)
    acc.sample({"pin": "every primitive / struct / command entry compared with vlib/pinned/layout.json", "valid_entries": nvals, "fields": nfields})


def run_unit(unit):
    acc = Acc()
    loader.load()
    (coherence if unit["kind"] == "coherence" else pin)(acc)
    return acc


def finish(acc, tier, seed):
    return {
        "evaluations": acc.n["evaluations"],
        "distinct_nontrivial": len(acc.shapes),
        "rule": "one evaluation per table entry / field / selector value / pinned entry; distinct = distinct (table, code), type or pinned entry checked",
        "exhaustive": True,
    }


def replay(case):
    acc = Acc()
    coherence(acc)
    pin(acc)
    return [(v["fp"], v["case"], v["detail"]) for v in acc.viol.values()]
