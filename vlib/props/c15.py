"""C15  Hex, swtpm-log, pcapng and auto inputs decode like the bytes they carry (engine C + container enumeration)."""
import itertools

from .. import impl, loader, oracle
from ..engines import product
from ..ref import text
from ..runner import Acc
from . import c09

LEVEL = "model_checking"
ASSUMPTIONS = [
    "engine C: the product of the real scanner generator (state = f_lasti + locals when it asks for the next byte) and the reference automaton is explored to closure over all 256 byte values and EOF, so the two agree on every input of every length (swtpm: on every input the reference does not send to its out-of-layout sink)",
    "hex whitespace = ASCII whitespace (what bytes.strip() strips); swtpm payload = upper-case hex pairs, blanks / CR / LF between pairs only; markers at the beginning of a line",
    "pcapng files are written with dpkt's own writer (trusted), IP and Ethernet framing",
    "container layouts are enumerated completely over the stated small alphabets (full product)",
]


def streams(seed):
    """carried byte strings: (label, bytes, well-formed?)"""
    st = c09.pair("Startup", "plain", seed)
    h = c09.pair("Hash", "decrypt+encrypt", seed)
    gc = c09.pair("GetCapability", "plain", seed)
    s1 = st[0] + st[1]
    out = [("startup-pair", [st[0], st[1]], True), ("hash-enc-pair+startup", [h[0], h[1], st[0], st[1]], True)]
    bad = bytearray(st[0])
    bad[-1] = 0x02  # TPM_SU out of range
    out.append(("value-fault", [bytes(bad), st[1]], False))
    sz = bytearray(gc[0])
    sz[5] += 1  # commandSize + 1
    out.append(("size-fault", [bytes(sz), gc[1]], False))
    out.append(("truncated", [st[0], st[1][:-3]], False))
    # a response tagged TPM_ST_RSP_COMMAND (what a TPM answers to a command it cannot parse), followed by a normal pair
    out.append(("rsp-command-tag", [st[0], bytes.fromhex("00c40000000a0000001e"), st[0], st[1]], True))
    return out


def units(tier, seed):
    us = [{"kind": "product", "scanner": "hex", "label": "product:hex"}, {"kind": "product", "scanner": "swtpm", "label": "product:swtpm"}]
    for i, (label, _, _) in enumerate(streams(seed)):
        for cont in ("hex", "hex-bad", "swtpm", "pcapng"):
            us.append({"kind": "container", "container": cont, "stream": i, "label": f"{cont}:{label}", "seed": seed, "tier": tier})
    return us


def decode_via(front, buf, strict, **kw):
    ns = loader.load()
    evs = []
    try:
        g = front.marshal(tpm_type=ns.CommandResponseStream, buffer=buf, abort_on_error=strict, **kw)
        for e in g:
            evs.append(impl.norm_ev(e))
        return evs, "Done", {}
    except ValueError as e:
        return evs, "ValueError", {"msg": str(e)[:80]}
    except Exception as e:  # noqa: BLE001
        k, d = impl.norm_err(e)
        return evs, k, d


def compare(acc, cont, front_name, front, buf, carried, d, strict, via_auto=False):
    ns = loader.load()
    loader.cache_clear()
    want = decode_via(ns.Binary, carried, strict)
    loader.cache_clear()
    got = decode_via(front, buf, strict)
    acc.count("evaluations")
    acc.count("traces")
    if got[1].startswith("ESCAPE"):
        acc.violation({"clause": "front-end-raises", "container": cont, "front": front_name, "exc": got[1], "where": got[2].get("where")}, d(), f"{front_name}.marshal raised {got[1]}: {got[2]}")
        return
    if got != want:
        if got[1] != want[1]:
            what = f"outcome {got[1]} vs {want[1]}"
        else:
            what = str(oracle.first_diff(got[0], want[0]) or (got[2], want[2]))
        acc.violation({"clause": "differs-from-carried-bytes", "container": cont, "front": front_name, "got": got[1], "want": want[1], "mode": "strict" if strict else "warn"}, d(), f"{front_name} over the {cont} container: {what} ({len(got[0])} vs {len(want[0])} events)")


def hex_layouts(tier):
    cases_ = ("lower", "upper", "mixed")
    seps = ("", " ", "\n", "\t", "\r\n", "  \n")
    insides = (None, ("first", " "), ("mid", "\n"), ("last", "\t "))
    leads = ("", " ", "\n\n")
    trails = ("", "\n", " \r\n")
    return itertools.product(cases_, seps, insides, leads, trails)


def run_unit(unit):
    acc = Acc()
    ns = loader.load()
    from tpmstream.io.auto import Auto
    from tpmstream.io.hex import Hex
    hex_scan = impl.find_scanner("tpmstream.io.hex.marshal")
    from tpmstream.io.pcapng import Pcapng
    from tpmstream.io.swtpm_log import SWTPMLog
    sw_scan = impl.find_scanner("tpmstream.io.swtpm_log.marshal")

    if unit["kind"] == "product":
        scan, ref = (hex_scan, text.RefHex) if unit["scanner"] == "hex" else (sw_scan, text.RefSwtpm)
        r = product.closure(scan, ref)
        acc.count("states", r["states"])
        acc.count("transitions", r["transitions"])
        acc.count("traces", r["transitions"])
        acc.count("evaluations", r["transitions"])
        acc.count("product_closed", 1 if r["closed"] else 0)
        acc.count("product_units")
        for st in range(min(r["states"], 3000)):
            acc.shape((unit["scanner"], st))
        for key, (q, detail) in r["mismatches"].items():
            acc.violation({"clause": "scanner-vs-automaton", "scanner": unit["scanner"], "what": key[0], "detail": "/".join(map(str, key[1:]))[:40]}, {"harness": "product", "scanner": unit["scanner"], "input": bytes(q).hex(), "text": repr(bytes(q))}, f"{unit['scanner']} scanner on {bytes(q)!r}: {detail}", size=len(q))
        if not r["closed"]:
            # the state abstraction did not make the product finite (e.g. the scanner was restructured): this is a limit
            # of the harness, not a violation - fall back to all strings up to a length over the letter classes
            letters = b"09afAFg \n\t+-" if unit["scanner"] == "hex" else b"SWTPM_IOCtrl\n\r 08AFax:"
            depth = 4 if unit["scanner"] == "hex" else 4
            fb = product.bounded(scan, ref, sorted(set(letters)), depth)
            acc.count("product_fallback_strings", fb["strings"])
            acc.count("evaluations", fb["strings"])
            acc.count("caps_hit")
            acc.notes.append(f"product of the {unit['scanner']} scanner did not close within {r['states']} states; bounded fallback: all {fb['strings']} strings of length <= {depth} over {len(set(letters))} letters")
            for key, (q, detail) in fb["mismatches"].items():
                acc.violation({"clause": "scanner-vs-automaton", "scanner": unit["scanner"], "what": key[0], "detail": "/".join(map(str, key[1:]))[:40], "mode": "bounded"}, {"harness": "product", "scanner": unit["scanner"], "input": bytes(q).hex(), "text": repr(bytes(q))}, f"{unit['scanner']} scanner on {bytes(q)!r}: {detail}", size=len(q))
        acc.sample({"unit": unit["label"], "states": r["states"], "transitions": r["transitions"], "closed": r["closed"], "reference_state_tags": r.get("ref_tags"), "covered_states": r.get("covered"), "longest_access_string": r.get("longest_access")}, cap=4)
        return acc

    label, msgs, wellformed = streams(unit["seed"])[unit["stream"]]
    carried = b"".join(msgs)
    cont = unit["container"]
    n = 0
    if cont == "hex":
        for case, sep, inside, lead, trail in hex_layouts(unit["tier"]):
            ins = None
            if inside is not None:
                pos = {"first": 0, "mid": len(carried) // 2, "last": len(carried) - 1}[inside[0]]
                ins = (pos, inside[1])
            t = text.hex_text(carried, case, sep, ins, lead, trail)
            lay = {"case": case, "sep": sep, "inside": inside, "lead": lead, "trail": trail}
            for strict in (True, False):
                n += 1
                compare(acc, "hex", "Hex", Hex, t, carried, lambda: {"harness": "container", "container": "hex", "stream": label, "layout": lay, "input": t.hex(), "text": t.decode()[:120]}, strict)
            # auto-detection: hex text is recognised by its first two characters
            auto_ok = lead == "" and not (inside is not None and inside[0] == "first")
            acc.count("states")
            loader.cache_clear()
            want = decode_via(ns.Binary, carried, False)
            loader.cache_clear()
            got = decode_via(Auto, t, False)
            acc.count("evaluations")
            acc.count("traces")
            if got != want:
                acc.violation({"clause": "auto-misdetects", "container": "hex", "first_pair_intact": auto_ok, "got": got[1]}, {"harness": "container", "container": "hex", "via": "auto", "stream": label, "layout": lay, "input": t.hex(), "text": t.decode()[:120]}, f"Auto over hex text {t[:24]!r}...: {got[1]} / {len(got[0])} events, direct decoding {want[1]} / {len(want[0])} events")
            acc.shape(("hex", case, sep, inside, lead, trail))
    elif cont == "hex-bad":
        if not wellformed:
            return acc
        good = text.hex_text(carried, "lower", " ")
        digits = [i for i, ch in enumerate(good) if ch != 0x20]
        for badch in (b"g", b"+", b"-", b"x", b"_", b",", b":", b"G", b"\x00", b"\xff"):
            for posname, at in (("first", digits[0]), ("second", digits[1]), ("mid", digits[len(digits) // 2]), ("last", digits[-1])):
                t = good[:at] + badch + good[at + 1 :]
                for strict in (True, False):
                    n += 1
                    loader.cache_clear()
                    got = decode_via(Hex, t, strict)
                    acc.count("evaluations")
                    acc.count("traces")
                    acc.count("states")
                    acc.shape(("hex-bad", badch, posname))
                    if got[1] != "ValueError":
                        acc.violation({"clause": "non-hex-text-not-rejected", "char": badch.decode("latin1"), "pos": posname, "got": got[1]}, {"harness": "container", "container": "hex-bad", "stream": label, "input": t.hex(), "text": repr(t)[:120]}, f"hex text with {badch!r} at the {posname} digit: {got[1]} instead of ValueError")
        # odd number of digits
        for t in (good[:-1], good + b" 8", b"8"):
            loader.cache_clear()
            got = decode_via(Hex, t, False)
            acc.count("evaluations")
            acc.count("traces")
            if got[1] != "ValueError":
                acc.violation({"clause": "odd-digits-not-rejected", "got": got[1]}, {"harness": "container", "container": "hex-bad", "stream": label, "input": t.hex()}, f"odd number of hex digits: {got[1]}")
    elif cont == "swtpm":
        frees = ((), ("swtpm starting",), ("Some S text, SWTPM: not a marker", "Contains C and 0A 0B 0C", "SW partial", ""))
        gaps = len(msgs) + 1
        ctrl_sets = [()] + [(g,) for g in range(gaps)] + [(g, h) for g in range(gaps) for h in range(g, gaps)]
        ctrl_payload = bytes.fromhex("00000010")
        for free, ctrls, per_line, lead, eol, final in itertools.product(frees, ctrl_sets, (16, 8, 5), ("", " "), ("\n", "\r\n"), (True, False)):
            sections = []
            for i in range(gaps):
                for _ in range(ctrls.count(i)):
                    sections.append(("ctrl", ctrl_payload, "Cmd" if len(sections) % 2 == 0 else "Rsp"))
                if i < len(msgs):
                    sections.append(("io", msgs[i], "Read" if i % 2 == 0 else "Write"))
            t = text.swtpm_log(sections, free, eol, per_line, lead, final)
            lay = {"free": list(free), "ctrl_at": list(ctrls), "per_line": per_line, "lead": lead, "eol": eol, "final_eol": final}
            acc.count("states")
            acc.shape(("swtpm", free, ctrls, per_line, lead, eol, final))
            for strict in (True, False):
                n += 1
                compare(acc, "swtpm", "SWTPMLog", SWTPMLog, t, carried, lambda: {"harness": "container", "container": "swtpm", "stream": label, "layout": lay, "input": t.hex(), "text": t.decode()[:200]}, strict)
    elif cont == "pcapng":
        # bytes behind the message's own size field: none, the 4 of the simulator, and other amounts
        tails = {"exact": b"", "trailer": b"\x00\x00\x00\x00", "trailer1": b"\xaa", "trailer2": b"\x80\x01", "trailer7": b"\x80\x01\x00\x00\x00\x0a\x00"}
        n_m = len(msgs)
        combos = [("exact",) * n_m, ("trailer",) * n_m]
        for i in range(n_m):
            for v in tails:
                if v != "exact":
                    combos.append(tuple(v if j == i else "exact" for j in range(n_m)))
                    combos.append(tuple(v if j == i else "trailer" for j in range(n_m)))
        combos = sorted(set(combos))
        extras = (None, "runt", "empty", "runt-first")
        # Ethernet with all-zero MACs (loopback) for every layout; real destination MACs (first octet 0x02, 0x44, 0x48)
        # for the plain layouts
        plain = [c for c in combos if set(c) <= {"exact", "trailer"}][:2]
        layouts = list(itertools.product(("ip", "eth"), combos, extras)) + list(itertools.product(("eth-mac:02", "eth-mac:44", "eth-mac:48"), plain, (None, "runt")))
        for framing, vs, extra in layouts:
            pkts = []
            for m, v in zip(msgs, vs):
                pkts.append(m + tails[v])
            if extra == "runt":
                pkts.insert(1, b"\x00" * 9)
            elif extra == "empty":
                pkts.insert(1, b"")
            elif extra == "runt-first":
                pkts.insert(0, b"\x00\x00\x00\x01\x00")
            try:
                t = text.pcapng_file(pkts, framing)
            except Exception as e:  # noqa: BLE001 - the builder (dpkt) failed: harness problem
                acc.violation({"clause": "harness-error", "what": "pcapng-builder", "exc": type(e).__name__}, {"harness": "container", "container": "pcapng", "input": ""}, str(e))
                continue
            lay = {"framing": framing, "payloads": list(vs), "extra": extra}
            # carried bytes by the statement: packets shorter than 10 bytes are runts (skipped), every other payload
            # is trimmed to its own size field
            carried = b"".join(p[: int.from_bytes(p[2:6], "big")] if int.from_bytes(p[2:6], "big") != len(p) else p for p in pkts if len(p) >= 10)
            lay["carried"] = carried.hex()
            acc.count("states")
            acc.shape(("pcapng", framing, vs, extra))
            # carried bytes: messages trimmed to their own size field; truncated messages stay as they are
            for strict in (True, False):
                n += 1
                compare(acc, "pcapng", "Pcapng", Pcapng, t, carried, lambda: {"harness": "container", "container": "pcapng", "stream": label, "layout": lay, "input": t.hex()}, strict)
                compare(acc, "pcapng", "Auto", Auto, t, carried, lambda: {"harness": "container", "container": "pcapng", "via": "auto", "stream": label, "layout": lay, "input": t.hex()}, strict)
        # binary through Auto
        carried = b"".join(msgs)
        for strict in (True, False):
            compare(acc, "binary", "Auto", Auto, carried, carried, lambda: {"harness": "container", "container": "binary", "via": "auto", "stream": label, "input": carried.hex()}, strict)
    acc.count("transitions", n)
    acc.sample({"unit": unit["label"], "container": cont, "carried": carried.hex()[:60], "layouts_decoded": n}, cap=6)
    return acc


def finish(acc, tier, seed):
    if acc.n["product_units"] != 2:
        acc.violation({"clause": "product-incomplete"}, {"harness": "finish"}, "the two scanner products did not both run")
    return {
        "states": acc.n["states"],
        "transitions": acc.n["transitions"],
        "traces_validated_against_impl": acc.n["traces"],
        "evaluations": acc.n["evaluations"],
        "distinct_nontrivial": len(acc.shapes),
        "rule": "engine C: product states (real scanner locals x reference automaton state), one transition per byte value 0..255 per state, to closure; containers: full product of the layout alphabets x 5 carried streams x both modes, each decoded by the front-end and compared with Binary.marshal of the carried bytes; distinct = distinct product states / layouts",
        "products_closed": acc.n["product_closed"],
        "product_fallback_strings": acc.n["product_fallback_strings"],
        "exhaustive": acc.n["product_closed"] == 2,
    }


def replay(case):
    acc = Acc()
    ns = loader.load()
    from tpmstream.io.auto import Auto
    from tpmstream.io.hex import Hex
    from tpmstream.io.pcapng import Pcapng
    from tpmstream.io.swtpm_log import SWTPMLog

    if case.get("harness") == "product":
        a = run_unit({"kind": "product", "scanner": case["scanner"], "label": "replay"})
        return [(v["fp"], v["case"], v["detail"]) for v in a.viol.values()]
    buf = bytes.fromhex(case["input"])
    cont = case["container"]
    if cont == "hex-bad":
        got = decode_via(Hex, buf, False)
        return [] if got[1] == "ValueError" else [({"clause": "non-hex-text-not-rejected"}, case, f"{got[1]}")]
    front = Auto if case.get("via") == "auto" else {"hex": Hex, "swtpm": SWTPMLog, "pcapng": Pcapng}[cont]
    label = case.get("stream")
    carried = next((b"".join(m) for l, m, _ in streams(0) if l == label), None)
    if case.get("layout", {}).get("carried") is not None:
        carried = bytes.fromhex(case["layout"]["carried"])
    for strict in (True, False):
        compare(acc, cont, front.__name__, front, buf, carried, lambda: case, strict)
    return [(v["fp"], v["case"], v["detail"]) for v in acc.viol.values()]
