"""C07  Warn mode and strict mode agree up to the first problem (relational oracle over the fault spaces)."""
from .. import bscope, cases, faultspace, impl, loader, oracle
from ..runner import Acc

LEVEL = "fault_enumeration"
ASSUMPTIONS = [
    "relational oracle between two runs of the real decoder on the same bytes; no reference model is involved",
    "inputs: well-formed base cases and the size, value, length and byte-substitution fault families of C03-C06 on them",
    "strict-mode internal errors (C06's subject) are counted and skipped",
]


B_STRICT = ()
B_WARN = ('C07',)


def units(tier, seed):
    us = cases.fault_units(tier, seed, with_prims=True, thorough_budget=20, two_pairs_all=False)
    if tier == "quick":
        # quick: for the session-count / password-session variants only the well-formed base cases are compared in the two
        # modes (the faults on them are left to C08 (same inputs, warn mode) and C03 (strict))
        for u in us:
            if u["variant"] in ("sess0", "sess4", "decrypt-pw", "failed-flag"):
                u["base_only"] = True
    for u in us:
        u["seed"], u["tier"] = seed, tier
        if tier == "quick" and u["kind"] == "struct":
            u["subst_alphabet"] = (0x00, 0x01, 0x7F, 0x80, 0xFF)
        if tier == "thorough" and u["kind"] != "struct":
            u["value_valid"] = False
            u["subst_base_only"] = True  # frames: all ten substitute bytes on the default base case only
        if tier == "quick" and u["kind"] != "struct":
            u["value_valid"] = False  # quick: frames without the in-range substitutions (C04 runs them in strict mode)
            u["subst_alphabet"] = (0x00, 0xFF)  # quick: frames get the two extreme substitute bytes, structures all ten
    us += bscope.units(tier, seed)
    return us


def relation(s, w):
    """s: strict Run, w: warn Run -> list of (clause, extras, detail)"""
    probs = []
    firstw = next((i for i, e in enumerate(w.events) if e[0] == "W"), None)
    wesc = w.kind if w.kind != "Done" else None
    if s.kind == "Done":
        if firstw is not None:
            probs.append(("strict-accepts-warn-warns", {"warn": w.events[firstw][1]}, f"strict accepts, warn mode warns {w.events[firstw]}"))
        elif wesc:
            probs.append(("strict-accepts-warn-raises", {"warn": wesc}, f"strict accepts, warn mode raises {wesc} {w.details}"))
        elif w.events != s.events:
            probs.append(("accepted-events-differ", {}, f"{oracle.first_diff(w.events, s.events)}"))
        return probs
    if firstw is None:
        # (the two escapes warn mode is allowed are always preceded by the warning for the offending value, so a
        # rejection by strict mode without any warning in warn mode is never right)
        if wesc is None:
            probs.append(("strict-rejects-warn-silent", {"strict": s.kind}, f"strict raises {s.kind} {s.details}; warn mode emits no warning and ends normally"))
        else:
            probs.append(("strict-rejects-warn-raises-without-warning", {"strict": s.kind, "warn": wesc}, f"strict raises {s.kind} {s.details}; warn mode raises {wesc} {w.details} before any warning"))
        return probs
    wk, wd = w.events[firstw][1], dict(w.events[firstw][2])
    before = w.events[:firstw]
    if s.kind == "Value":
        if before[:-1] != s.events:
            probs.append(("events-before-differ", {"strict": s.kind}, f"{oracle.first_diff(before[:-1], s.events)}"))
        if not before or before[-1][0] != "E" or before[-1][1] != s.details.get("path") or before[-1][3] != s.details.get("value"):
            probs.append(("offending-event-not-before-warning", {"strict": s.kind}, f"event before the warning: {before[-1] if before else None}; strict error: {s.details}"))
    elif before != s.events:
        probs.append(("events-before-differ", {"strict": s.kind}, f"{oracle.first_diff(before, s.events)}"))
    if wk != s.kind:
        probs.append(("first-warning-class", {"strict": s.kind, "warn": wk}, f"strict raises {s.kind} {s.details}; first warning is {wk} {wd}"))
    else:
        sd = {k: (tuple(v) if isinstance(v, list) else v) for k, v in s.details.items()}
        if wd != sd:
            keys = sorted(k for k in set(wd) | set(sd) if wd.get(k) != sd.get(k))
            probs.append(("first-warning-details", {"strict": s.kind, "keys": ",".join(keys)}, "; ".join(f"{k}: strict {sd.get(k)!r}, warn {wd.get(k)!r}" for k in keys)))
    return probs


def check_input(acc, root, m, cc, enc, d):
    loader.cache_clear()
    s = impl.run(root, m, cc=cc, enc=enc, strict=True)
    loader.cache_clear()
    w = impl.run(root, m, cc=cc, enc=enc, strict=False)
    acc.count("evaluations")
    acc.count("strict:" + (s.kind if not s.kind.startswith("ESCAPE") else "ESCAPE"))
    if s.kind.startswith("ESCAPE") or s.kind == "GUARD":
        # strict mode fails with an internal error (C06's subject, known findings F8 / F9); the relation still says
        # something: warn mode must not accept what strict mode does not accept
        acc.count("skipped_strict_internal_error")
        if w.kind == "Done" and not any(e[0] == "W" for e in w.events):
            acc.violation({"clause": "strict-internal-error-warn-accepts", "root": oracle.rootclass(root), "exc": s.kind, "where": s.details.get("where")}, d(), f"strict mode raises {s.kind} in {s.details.get('where')}; warn mode emits no warning and ends normally", size=len(m))
        return
    fw = next((e[1] for e in w.events if e[0] == "W"), None)
    acc.shape((oracle.rootclass(root) if oracle.rootclass(root) != "struct" else root, s.kind, oracle.path_shape(s.details.get("cpath") or s.details.get("path")), fw))
    for clause, extra, detail in relation(s, w):
        acc.violation(dict({"clause": clause, "root": oracle.rootclass(root)}, **extra), d(), detail, size=len(m))


def run_unit(unit):
    if unit["kind"] == "bscope":
        return bscope.run_b_unit(unit, strict_own=B_STRICT, warn_props=B_WARN)
    acc = Acc()
    loader.load()
    fams = [] if unit.get("base_only") else ["size", "value", "length", "subst"]

    def on_case(case):
        from ..ref.decode import decode

        ref0 = decode(case.root, case.b, cc=case.cc, enc=case.enc)
        acc.count("base_cases")
        check_input(acc, case.root, case.b, case.cc, case.enc, lambda: dict(case.desc(), harness="relation"))
        for fam in fams:
            for m, f in faultspace.FAMILIES[fam](case, ref0, unit):
                acc.count("family:" + f["fault"])
                check_input(acc, case.root, m, case.cc, case.enc, lambda: dict(case.desc(), harness="relation", input=m.hex(), fault=f))

    cases.explore_unit(unit, unit["seed"], on_case, acc)
    c = cases.replay_case(unit, unit["seed"], ())
    acc.sample({"unit": unit["label"], "base_input": c.b.hex()[:80], "families": fams}, cap=2)
    return acc


def finish(acc, tier, seed):
    for k in ("Done", "Value", "Anticipated", "Exceeded", "Subceeded", "Depleted", "Superfluous"):
        if acc.n["strict:" + k] == 0:
            acc.violation({"clause": "vacuous", "missing": k}, {"harness": "finish"}, f"no input with strict outcome {k}")
    return {
        "evaluations": acc.n["evaluations"],
        "distinct_nontrivial": len(acc.shapes),
        "rule": "every base case and every size / value / cut / suffix / byte-substitution fault on it, decoded once in each mode; distinct = distinct (root, strict outcome, path shape, class of first warning)",
        "base_cases": acc.n["base_cases"],
        "strict_outcomes": {k[7:]: v for k, v in acc.n.items() if str(k).startswith("strict:")},
        "faults_by_family": {k[7:]: v for k, v in acc.n.items() if str(k).startswith("family:")},
        "skipped_strict_internal_error": acc.n["skipped_strict_internal_error"],
        "caps_hit": acc.n["caps_hit"],
        "exhaustive": acc.n["caps_hit"] == 0,
    }


def replay(case):
    if case.get("harness") == "bytestep":
        return bscope.replay(case, strict_own=B_STRICT, warn_props=B_WARN)
    acc = Acc()
    loader.load()
    check_input(acc, case["root"], bytes.fromhex(case["input"]), case.get("cc"), case.get("enc"), lambda: case)
    return [(v["fp"], v["case"], v["detail"]) for v in acc.viol.values()]
