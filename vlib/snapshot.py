"""Live tpmstream tables -> plain layout dict; structural diff against the pin (DESIGN 3.1)."""
import json
import os
from dataclasses import fields
from typing import Any

from . import loader

PIN = os.path.join(os.path.dirname(__file__), "pinned", "layout.json")


def build():
    ns = loader.load()
    is_list, NamedRange = ns.is_list, ns.NamedRange
    Command, Response, CRS = ns.Command, ns.Response, ns.CommandResponseStream

    def tname(t):
        if t is None or t is type(None):
            return None
        if t is Any:
            return "Any"
        if is_list(t):
            return {"list": tname(t.__args__[0])}
        return t.__name__

    def kind_of(t):
        if hasattr(t, "are_bits_set"):
            return "rc"
        if hasattr(t, "attributes"):
            return "bitfield"
        if hasattr(t, "class_iter"):
            return "enum"
        return "int"

    def valid_entries(t):
        out = []

        def add(v):
            if isinstance(v, range):
                out.append({"lo": v.start, "hi": v.stop - 1, "name": None, "owner": None, "range": False})
            elif isinstance(v, NamedRange):
                out.append(
                    {
                        "lo": v._start,
                        "hi": v._end - 1,
                        "name": v._basename,
                        "owner": v._type.__name__,
                        "range": True,
                        "nibbles": v._index_nibbles,
                        "sep": v._sep,
                    }
                )
            elif isinstance(v, type):
                for m in v:
                    add(m)
            else:
                out.append(
                    {
                        "lo": int(v),
                        "hi": int(v),
                        "name": getattr(v, "_name", None),
                        "owner": type(v).__name__ if hasattr(v, "_name") else None,
                        "range": False,
                    }
                )

        for v in t._valid_values._values:
            add(v)
        return out

    prims, structs = {}, {}
    area_types = [t for t in ns.command_response_types if t not in (Command, Response, CRS)]
    for t in list(ns.structures_types) + area_types + [ns.TPM2B_ENCRYPTED_PARAM, Command, Response]:
        if hasattr(t, "_int_size"):
            e = {
                "size": t._int_size,
                "signed": bool(t._signed),
                "kind": kind_of(t),
                "mro": [c.__name__ for c in t.__mro__ if c.__name__ != "object"],
                "valid": valid_entries(t),
            }
            if e["kind"] == "bitfield":
                e["masks"] = [[a._name, int(a._value)] for a in t(0).attributes()]
            if e["kind"] == "enum":
                mem = []
                for a in t:
                    if isinstance(a, NamedRange):
                        mem.append([a._basename, {"lo": a._start, "hi": a._end - 1, "nibbles": a._index_nibbles}])
                    else:
                        mem.append([a._name, int(a)])
                e["members"] = mem
            prims[t.__name__] = e
        else:
            e = {
                "kind": "tpm2b"
                if t.__name__.startswith("TPM2B")
                else "union"
                if hasattr(t, "_selected_by")
                else "struct",
                "fields": [[f.name, tname(f.type)] for f in fields(t)],
                "module": t.__module__.split(".")[-1],
                "is_params": isinstance(t, type) and issubclass(t, ns.TPMS_PARAMS),
            }
            if hasattr(t, "_selectors"):
                e["selectors"] = [[k, v] for k, v in t._selectors.items()]
            if hasattr(t, "_selected_by"):
                e["selected_by"] = [
                    [k, None if v is None else {"class": v.__name__} if isinstance(v, type) else int(v)]
                    for k, v in t._selected_by.items()
                ]
            if hasattr(t, "_list_size"):
                e["list_size"] = [[k, v] for k, v in t._list_size.items()]
            key = t.__name__
            if key in structs and structs[key] != e:
                key = f"{t.__name__}@{e['module']}"
            structs[key] = e
    cmds = {}
    for cc in ns.TPM_CC:
        cmds[cc._name] = {
            "cc": int(cc),
            "ch": ns.command_handle_types[cc].__name__,
            "cp": ns.command_param_types[cc].__name__,
            "rh": ns.response_handle_types[cc].__name__,
            "rp": ns.response_param_types[cc].__name__,
        }
    return {
        "primitives": prims,
        "structs": structs,
        "commands": cmds,
        "tables": {
            "ch": sorted(int(k) for k in ns.command_handle_types),
            "cp": sorted(int(k) for k in ns.command_param_types),
            "rh": sorted(int(k) for k in ns.response_handle_types),
            "rp": sorted(int(k) for k in ns.response_param_types),
        },
    }


def canon(d):
    return json.loads(json.dumps(d, sort_keys=True))


_pin = None


def pinned():
    global _pin
    if _pin is None:
        with open(PIN) as f:
            _pin = json.load(f)
    return _pin


def diff(a, b, path="", out=None, limit=50):
    """structural differences between two json-like values: list of (path, a, b)"""
    if out is None:
        out = []
    if len(out) >= limit:
        return out
    if type(a) is not type(b):
        out.append((path, a, b))
    elif isinstance(a, dict):
        for k in sorted(set(a) | set(b)):
            if k not in a:
                out.append((f"{path}/{k}", "<absent>", b[k]))
            elif k not in b:
                out.append((f"{path}/{k}", a[k], "<absent>"))
            else:
                diff(a[k], b[k], f"{path}/{k}", out, limit)
    elif isinstance(a, list):
        if len(a) != len(b):
            out.append((path + "/#len", len(a), len(b)))
        for i, (x, y) in enumerate(zip(a, b)):
            diff(x, y, f"{path}[{i}]", out, limit)
    elif a != b:
        out.append((path, a, b))
    return out


if __name__ == "__main__":
    import sys

    d = canon(build())
    dst = sys.argv[1] if len(sys.argv) > 1 else PIN
    with open(dst, "w") as f:
        json.dump(d, f, indent=1, sort_keys=True)
    print(len(d["primitives"]), "primitives", len(d["structs"]), "structs", len(d["commands"]), "commands ->", dst)
