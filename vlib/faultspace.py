"""Generic harness: base cases (engine A) x fault families, strict run compared with the strict reference."""
from . import cases, faults, impl, loader, oracle
from .ref import values as V
from .ref.decode import decode as ref_decode
from .runner import Acc


def fam_size(case, ref, unit):
    roles = ("size", "count")
    yield from faults.size_perturbations(case.b, ref.fields, roles=roles)
    n_size = sum(1 for x in ref.fields if x[5] in roles)
    if unit.get("tier") == "thorough" and case.ndev == 0 and n_size <= 12:
        # pairs of perturbed size fields (second one strictly later in wire order), +-1 and 0 only; messages with
        # more than 14 size-like fields are left to the single faults (their parts are roots of their own)
        for m, f in faults.size_perturbations(case.b, ref.fields, deltas=(-1, 1), absolutes=(0,), with_max=False, roles=roles):
            rm = ref_decode(case.root, m, cc=case.cc, enc=case.enc, lenient=True)
            later = [x for x in rm.fields if x[2] > f["offset"]]
            for m2, f2 in faults.size_perturbations(m, later, deltas=(-1, 1), absolutes=(0,), with_max=False, roles=roles):
                yield m2, {"fault": "size2", "first": f, "second": f2}


def fam_value(case, ref, unit):
    yield from faults.value_corruptions(case.b, ref.fields, unit["seed"])
    if unit.get("value_valid", True):
        yield from faults.boundary_values(case.b, ref.fields, unit["seed"])
    n_con = sum(1 for x in ref.fields if V.is_constrained(x[1]))
    if unit.get("tier") == "thorough" and case.ndev == 0 and n_con <= 10:
        for m, f in faults.value_corruptions(case.b, ref.fields, unit["seed"]):
            rm = ref_decode(case.root, m, cc=case.cc, enc=case.enc, lenient=True)
            later = [x for x in rm.fields if x[2] > f["offset"]]
            for m2, f2 in faults.value_corruptions(m, later, unit["seed"]):
                yield m2, {"fault": "value2", "first": f, "second": f2}


def fam_length(case, ref, unit):
    yield from faults.cuts(case.b)
    extra = ()
    if case.root != "CommandResponseStream" and case.b:
        extra = (case.b,)  # a whole further message
    yield from faults.suffixes(case.b, extra + (bytes(range(256)) + bytes(44), bytes(range(256)) * 274))  # and long ones (300 and 70 144 bytes)


def fam_subst(case, ref, unit):
    if unit.get("subst_base_only") and case.ndev > 0:
        return  # (thorough, frames) substitutions on the unit's default base case only; the deviated cases get the other families
    yield from faults.substitutions(case.b, tuple(unit.get("subst_alphabet", faults.SUBST)))
    if unit.get("tier") == "thorough" and len(case.b) <= 40 and case.ndev == 0:
        yield from faults.double_substitutions(case.b, alphabet=(0, 1, 0x7F, 0x80, 0xFF))


def fam_last_field(case, ref, unit):
    """the fault on the very last field, and the input cut right after a faulty field (C13's end-of-input path)"""
    if not ref.fields:
        return
    for m, f in faults.value_corruptions(case.b, ref.fields, unit["seed"]):
        yield m[: f["offset"] + V.width(f["type"])], dict(f, fault="value+cut")
    for m, f in faults.size_perturbations(case.b, ref.fields, deltas=(-1, 1), absolutes=(0,), with_max=False, roles=("size", "count")):
        w = V.width(f["type"])
        for extra in (0, 1, 2):
            if f["offset"] + w + extra <= len(m):
                yield m[: f["offset"] + w + extra], dict(f, fault="size+cut", keep=extra)


FAMILIES = {"size": fam_size, "value": fam_value, "length": fam_length, "subst": fam_subst, "last": fam_last_field}


def outcome_shape(root, ref):
    d = ref.details
    return (
        oracle.rootclass(root) if oracle.rootclass(root) != "struct" else root,
        ref.kind,
        oracle.path_shape(d.get("cpath")),
        oracle.path_shape(d.get("violator") or d.get("path")),
    )


def run_unit(unit, families, own, extra_check=None):
    """own: set of comparator clauses this property reports"""
    acc = Acc()
    loader.load()
    seed = unit["seed"]

    def on_case(case):
        ref0, ok = cases.self_check(case, acc)
        if not ok:
            acc.violation({"clause": "model-self-check", "root": case.root}, dict(case.desc(), harness="faultspace"), f"generator intent and reference decoder disagree (MODEL problem): {ref0.kind} {ref0.details}")
            return
        acc.count("base_cases")
        for fam in families:
            for m, f in FAMILIES[fam](case, ref0, unit):
                loader.cache_clear()
                ref, r, probs = oracle.compare_strict(case.root, m, cc=case.cc, enc=case.enc, root_path=unit.get("root_path"))
                acc.count("evaluations")
                acc.count("expected:" + ref.kind)
                acc.count("family:" + f["fault"])
                acc.shape(outcome_shape(case.root, ref))
                d = None
                for p in probs:
                    if p["clause"] in own:
                        d = d or dict(case.desc(), harness="faultspace", input=m.hex(), fault=f, root_path=unit.get("root_path"))
                        acc.violation(oracle.fp_of(p, root=oracle.rootclass(case.root), family=f["fault"], **({"custom_root_path": True} if unit.get("root_path") else {})), d, p["detail"], size=len(m))
                    else:
                        acc.count("other_clause:" + p["clause"])
                if extra_check is not None:
                    extra_check(acc, case, m, f, ref, r)

    cases.explore_unit(unit, seed, on_case, acc)
    c = cases.replay_case(unit, seed, ())
    acc.sample({"unit": unit["label"], "base_input": c.b.hex()[:80], "families": list(families)}, cap=2)
    return acc


def replay(case, own, extra_check=None):
    acc = Acc()
    loader.load()
    b = bytes.fromhex(case["input"])
    ref, r, probs = oracle.compare_strict(case["root"], b, cc=case.get("cc"), enc=case.get("enc"), root_path=case.get("root_path"))
    for p in probs:
        if p["clause"] in own:
            acc.violation(oracle.fp_of(p, root=oracle.rootclass(case["root"])), case, p["detail"])
    if extra_check is not None:
        c = cases.Case(case["root"], b, case.get("cc"), case.get("enc"))
        extra_check(acc, c, b, case.get("fault", {}), ref, r)
    return [(v["fp"], v["case"], v["detail"]) for v in acc.viol.values()]


def coverage(acc, rule, required_kinds=()):
    for k in required_kinds:
        if acc.n["expected:" + k] == 0:
            acc.violation({"clause": "vacuous", "missing": k}, {"harness": "finish"}, f"the fault space never produced the outcome {k}: the check would be vacuous")
    return {
        "evaluations": acc.n["evaluations"],
        "distinct_nontrivial": len(acc.shapes),
        "rule": rule,
        "base_cases": acc.n["base_cases"],
        "base_case_choice_tree": {"states": acc.n["states"], "transitions": acc.n["transitions"], "executions": acc.n["executions"]},
        "outcomes_expected": {k[9:]: v for k, v in acc.n.items() if str(k).startswith("expected:")},
        "faults_by_family": {k[7:]: v for k, v in acc.n.items() if str(k).startswith("family:")},
        "caps_hit": acc.n["caps_hit"],
        "exhaustive": acc.n["caps_hit"] == 0,
    }
