"""Comparison of one strict run of the implementation with the strict reference decoding (DESIGN 4.2).

compare_strict() returns the reference result, the implementation's run and a list of
problems (clause, detail, fingerprint extras); the property harnesses decide which
clauses they own.
"""
import re

from . import impl
from .ref.decode import decode as ref_decode

DOCUMENTED = ("Done", "Value", "Anticipated", "Exceeded", "Subceeded", "Depleted", "Superfluous")
# reference outcomes that mean "the input is outside what the statements of C01-C05 speak about"
OUTSIDE = ("EncNotApplicable", "EncInconsistent", "NoMember", "UnknownCC")


def path_shape(p):
    return re.sub(r"\[\d+\]", "[]", p or "")


def tail_shape(p, n=2):
    """last n nodes of a path without indices: coarse location of a problem for fingerprints"""
    parts = path_shape(p).split(".")
    return ".".join(parts[-n:])


def first_diff(a, b):
    for i, (x, y) in enumerate(zip(a, b)):
        if x != y:
            return i, x, y
    if len(a) != len(b):
        i = min(len(a), len(b))
        return i, a[i] if i < len(a) else None, b[i] if i < len(b) else None
    return None


def rootclass(root):
    if root in ("Command", "Response", "CommandResponseStream"):
        return root
    return "struct"


def compare_strict(root, b, cc=None, enc=None, ref=None, root_path=None):
    """-> (ref, run, problems); problems: list of dict(clause=..., detail=..., **fingerprint extras)"""
    if ref is None:
        ref = ref_decode(root, b, cc=cc, enc=enc)
    r = impl.run(root, b, cc=cc, enc=enc, strict=True, root_path=root_path)
    probs = []
    rk = ref.kind
    if (r.kind.startswith("ESCAPE") or r.kind == "GUARD") and rk in OUTSIDE:
        # an internal error on an input the statements of C01-C05 do not speak about: C06 judges it
        probs.append(dict(clause="outside-escape", exc=r.kind, where=r.details.get("where"), expected=rk, detail=f"strict decoding raised {r.kind} in {r.details.get('where')}: {r.details.get('msg', r.details)}; reference: {rk}"))
        return ref, r, probs
    if r.kind.startswith("ESCAPE") or r.kind == "GUARD":
        probs.append(dict(clause="escape", exc=r.kind, where=r.details.get("where"), expected=rk, detail=f"strict decoding raised {r.kind} in {r.details.get('where')}: {r.details.get('msg', r.details)}; reference outcome {rk}"))
        return ref, r, probs
    if r.pulled is not None and r.pulled > len(b):
        probs.append(dict(clause="pulled", detail=f"pulled {r.pulled} > {len(b)}"))
    if rk in OUTSIDE:
        probs.append(dict(clause="outside", expected=rk, observed=r.kind, detail=f"reference: {rk} (input outside the statement); implementation: {r.kind} {r.details}"))
        return ref, r, probs
    if r.kind != rk:
        probs.append(dict(clause="outcome", expected=rk, observed=r.kind, at=tail_shape(ref.details.get("violator") or ref.details.get("path") or ref.details.get("cpath")), detail=f"expected {rk} {ref.details}, observed {r.kind} {r.details}"))
    elif r.details != ref.details:
        keys = sorted(k for k in set(r.details) | set(ref.details) if r.details.get(k) != ref.details.get(k))
        probs.append(dict(clause="details", kind=rk, keys=",".join(keys), detail=f"{rk}: " + "; ".join(f"{k}: expected {ref.details.get(k)!r}, observed {r.details.get(k)!r}" for k in keys)))
    if r.events != ref.events:
        i, got, want = first_diff(r.events, ref.events)
        what = "length" if got is None or want is None else next((n for n, (x, y) in zip(("kind", "path", "type", "value", "value-class"), zip(got, want)) if x != y), "?")
        probs.append(dict(clause="events", kind=rk, what=what, more="impl" if len(r.events) > len(ref.events) else "ref" if len(r.events) < len(ref.events) else "same", detail=f"outcome {rk}: event {i} is {got}, expected {want} ({len(r.events)} vs {len(ref.events)} events before the outcome)"))
    if r.kind == rk and rk in ("Value", "Anticipated", "Exceeded", "Subceeded"):
        want = b[ref.pos :]
        if r.remaining is None or isinstance(r.remaining, str):
            probs.append(dict(clause="remaining", kind=rk, how="missing", detail=f"{rk}: bytes_remaining is {r.remaining!r}, expected {want.hex()}"))
        elif r.remaining != want:
            how = "duplicated-lookahead" if len(r.remaining) == len(want) + 1 and r.remaining[1:] == want else "dropped" if len(r.remaining) < len(want) else "other"
            probs.append(dict(clause="remaining", kind=rk, how=how, detail=f"{rk}: bytes_remaining {r.remaining.hex()!r}, expected {want.hex()!r} (consumed {ref.pos} of {len(b)})"))
    return ref, r, probs


def fp_of(prob, **extra):
    fp = {k: v for k, v in prob.items() if k != "detail"}
    fp.update(extra)
    return fp


def enc_context(events, root, enc_flag, cc=None):
    """what the *input* says about parameter encryption, read off the events emitted so far (used to keep the
    fingerprints of the known findings F8 / F9 narrow): for the message being decoded when the run stopped,
    requested = the input asks for an encrypted first parameter (command: a session with decrypt; response: the
    flag it is decoded with, in a stream: a session of the preceding command with encrypt);
    response_sessions_encrypt = some session of that response carries encrypt"""
    from .ref import values as V

    def can(ccnum, which):
        """the pinned parameter area of that code starts with a TPM2B (only then can it be encrypted at all)"""
        name = V.cc_by_num().get(ccnum)
        if name is None:
            return None
        f = V.S()[V.C()[name][which]]["fields"]
        return bool(f) and isinstance(f[0][1], str) and f[0][1].startswith("TPM2B")

    msgs = []  # [kind, [sessionAttributes values], command code, response code]
    for e in events:
        if e[0] != "E":
            continue
        if e[1] == "" and e[3] == "..." and e[2] in ("Command", "Response"):
            msgs.append([e[2], [], None, None])
        elif e[1] == ".responseCode" and isinstance(e[3], int) and msgs:
            msgs[-1][3] = e[3]
        elif e[1].endswith(".sessionAttributes") and isinstance(e[3], int) and msgs:
            msgs[-1][1].append(e[3])
        elif e[1] == ".commandCode" and isinstance(e[3], int) and msgs:
            msgs[-1][2] = e[3]
    if not msgs:
        # a bare structure decoded with the encryption flag: the flag is the request; a parameter-area type can be
        # encrypted iff it starts with a TPM2B, any other type not at all
        st = V.S().get(root if isinstance(root, str) else getattr(root, "__name__", ""))
        f = st["fields"] if st else []
        area_can = bool(st and st.get("is_params") and f and isinstance(f[0][1], str) and f[0][1].startswith("TPM2B"))
        return {"requested": bool(enc_flag), "response_sessions_encrypt": False, "area_can_encrypt": area_can, "failed_response": False, "prev_command_abandoned_early": False}
    # did the preceding command report a problem before its parameter area began (then its session area may be
    # incomplete and the stream cannot know what the command requested)
    early = False
    roots = [i for i, e in enumerate(events) if e[0] == "E" and e[1] == "" and e[3] == "..." and e[2] in ("Command", "Response")]
    if len(roots) >= 2 and events[roots[-2]][2] == "Command":
        seg = events[roots[-2] : roots[-1]]
        first_w = next((i for i, e in enumerate(seg) if e[0] == "W" and e[1] != "Value"), None)
        params_at = next((i for i, e in enumerate(seg) if e[0] == "E" and e[1] == ".parameters"), None)
        early = first_w is not None and (params_at is None or first_w < params_at)
    kind, attrs, ccnum, rcode = msgs[-1]
    if kind == "Command":
        return {"requested": any(a & 0x20 for a in attrs), "response_sessions_encrypt": False, "area_can_encrypt": can(ccnum, "cp"), "failed_response": False, "prev_command_abandoned_early": False}
    if root == "Response":
        req = bool(enc_flag)
        ccnum = cc
    else:
        prev = next((m for m in reversed(msgs[:-1]) if m[0] == "Command"), None)
        req = bool(prev and any(a & 0x40 for a in prev[1]))
        ccnum = prev[2] if prev else None
    return {"requested": req, "response_sessions_encrypt": any(a & 0x40 for a in attrs), "area_can_encrypt": can(ccnum, "rp"), "failed_response": rcode not in (None, 0), "prev_command_abandoned_early": early}
