"""Import tpmstream from the tree under test.

TPMSTREAM_SRC (default /repo/src) is put in front of sys.path so that the checks
always run the *source* tree, never a build product.  An import failure (or an
import-time assertion of the tables) is reported by the runner as a violation of
the property at hand: a tree that cannot be imported satisfies nothing.
"""
import os
import sys

SRC = os.environ.get("TPMSTREAM_SRC", "/repo/src")
if SRC not in sys.path:
    sys.path.insert(0, SRC)

_cache = {}


class ImportFailure(Exception):
    pass


def load():
    """returns a namespace object with everything the harnesses need from tpmstream"""
    if "ns" in _cache:
        return _cache["ns"]
    try:
        ns = _load()
    except ImportFailure:
        raise
    except BaseException as e:  # noqa: BLE001 - import-time assertion, SyntaxError, ...
        import traceback

        raise ImportFailure("".join(traceback.format_exception(type(e), e, e.__traceback__)[-6:])) from e
    _cache["ns"] = ns
    return ns


class NS:
    pass


def _load():
    import tpmstream

    where = os.path.realpath(os.path.dirname(tpmstream.__file__))
    want = os.path.realpath(os.path.join(SRC, "tpmstream"))
    if where != want:
        raise ImportFailure(f"tpmstream imported from {where}, expected {want}")
    ns = NS()
    from tpmstream.io.binary import Binary
    from tpmstream.common import error as err
    from tpmstream.common.event import MarshalEvent, WarningEvent
    from tpmstream.common.path import Path, PathNode
    from tpmstream.common.util import is_list
    from tpmstream.spec.structures import structures_types
    from tpmstream.spec.commands import (
        Command,
        Response,
        CommandResponseStream,
        command_response_types,
    )
    from tpmstream.spec.commands.commands_handles import command_handle_types
    from tpmstream.spec.commands.commands_params import command_param_types
    from tpmstream.spec.commands.responses_handles import response_handle_types
    from tpmstream.spec.commands.responses_params import response_param_types
    from tpmstream.spec.commands.params_common import TPM2B_ENCRYPTED_PARAM, TPMS_PARAMS
    from tpmstream.spec.structures.constants import TPM_CC
    from tpmstream.spec.common.values import NamedRange, ValidValues

    ns.Binary = Binary
    ns.err = err
    ns.MarshalEvent = MarshalEvent
    ns.WarningEvent = WarningEvent
    ns.Path = Path
    ns.PathNode = PathNode
    ns.is_list = is_list
    ns.structures_types = list(structures_types)
    ns.Command, ns.Response, ns.CommandResponseStream = Command, Response, CommandResponseStream
    ns.command_response_types = list(command_response_types)
    ns.command_handle_types = command_handle_types
    ns.command_param_types = command_param_types
    ns.response_handle_types = response_handle_types
    ns.response_param_types = response_param_types
    ns.TPM2B_ENCRYPTED_PARAM = TPM2B_ENCRYPTED_PARAM
    ns.TPMS_PARAMS = TPMS_PARAMS
    ns.TPM_CC = TPM_CC
    ns.NamedRange = NamedRange
    ns.ValidValues = ValidValues
    ns.TYPES = {t.__name__: t for t in structures_types}
    ns.TYPES.update({"Command": Command, "Response": Response, "CommandResponseStream": CommandResponseStream})
    for t in command_response_types:
        ns.TYPES.setdefault(t.__name__, t)
    ns.TYPES.setdefault("TPM2B_ENCRYPTED_PARAM", TPM2B_ENCRYPTED_PARAM)
    ns.CC = {int(cc): cc for cc in TPM_CC}
    return ns


def cache_clear():
    """forget the synthesized encrypted-parameter types (between executions, except in C12)"""
    ns = load()
    f = ns.TPMS_PARAMS.__dict__["encrypted"]
    f = getattr(f, "__func__", f)
    if hasattr(f, "cache_clear"):
        f.cache_clear()
