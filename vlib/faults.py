"""Fault enumerators over a base case and its reference decoding (DESIGN 3, faults.py).

Every enumerator is a complete enumeration of a stated finite set; nothing is sampled.
A fault is (mutated bytes, description dict).
"""
from .ref import values as V


def _sub(b, off, raw):
    return b[:off] + raw + b[off + len(raw) :]


def value_corruptions(b, fields, seed=0, roles=None):
    """every constrained primitive field replaced by every value of outside(type)"""
    for path, tn, off, w, v, role in fields:
        if roles is not None and role not in roles:
            continue
        if not V.is_constrained(tn):
            continue
        for bad in V.outside(tn, seed):
            yield _sub(b, off, V.enc_int(tn, bad)), {"fault": "value", "path": path, "type": tn, "offset": off, "bad": bad}


def boundary_values(b, fields, seed=0):
    """every constrained primitive field replaced by every representative of its valid set (kept valid)"""
    for path, tn, off, w, v, role in fields:
        if not V.is_constrained(tn):
            continue
        for good in V.domain(tn, seed):
            if good != v:
                yield _sub(b, off, V.enc_int(tn, good)), {"fault": "valid-value", "path": path, "type": tn, "offset": off, "value": good}


def size_fields(fields):
    return [f for f in fields if f[5] in ("size", "count")]


def size_perturbations(b, fields, deltas=(-4, -3, -2, -1, 1, 2, 3, 4), absolutes=(0, 1), with_max=True, roles=("size",)):
    """every size-like field perturbed by +-1..4 (so that a region also ends inside 2- and 4-byte fields), set to 0 / 1 / the
    width maximum / the values that reach exactly, just short of and just past the end of the input"""
    n = len(b)
    for path, tn, off, w, v, role in fields:
        if role not in roles:
            continue
        lo, hi = V.limits(tn)
        cand = [v + d for d in deltas] + list(absolutes)
        if with_max:
            cand += [hi, hi - 1]
        # limit of the enclosing input: sizes that reach exactly / just past the end of the input
        rest = n - (off + w)
        cand += [rest, rest + 1, rest - 1]
        seen = set()
        for nv in cand:
            if nv == v or nv in seen or not (lo <= nv <= hi) or not V.is_valid(tn, nv):
                continue
            seen.add(nv)
            yield _sub(b, off, V.enc_int(tn, nv)), {"fault": "size", "path": path, "type": tn, "offset": off, "old": v, "new": nv}


def cuts(b):
    for i in range(len(b)):
        yield b[:i], {"fault": "cut", "at": i}


def suffixes(b, extra=()):
    for s in (b"\x00", b"\x01\x02") + tuple(extra):
        yield b + s, {"fault": "suffix", "suffix": s.hex()}


SUBST = (0, 1, 2, 3, 0x10, 0x20, 0x40, 0x7F, 0x80, 0xFF)


def substitutions(b, alphabet=SUBST):
    for i in range(len(b)):
        for v in alphabet:
            if b[i] != v:
                yield b[:i] + bytes([v]) + b[i + 1 :], {"fault": "subst", "at": i, "byte": v}


def double_substitutions(b, alphabet=SUBST):
    for i in range(len(b)):
        for j in range(i + 1, len(b)):
            for v in alphabet:
                if b[i] == v:
                    continue
                for w in alphabet:
                    if b[j] != w:
                        m = bytearray(b)
                        m[i], m[j] = v, w
                        yield bytes(m), {"fault": "subst2", "at": [i, j], "bytes": [v, w]}
