"""Driving the implementation and normalising what it says (DESIGN 4.1).

Nothing of an event is compared except (kind, path string, declared type name,
integer value or '...', class name of the value), nothing of an error except
its class and the details the property statements name.
"""
from . import loader

MAX_EVENTS_PER_BYTE = 64  # non-termination guard (C06): generous linear bound
MAX_EVENTS_BASE = 4096


def tyname(t):
    ns = loader.load()
    if t is None:
        return "None"
    if ns.is_list(t):
        args = getattr(t, "__args__", None)
        return "list[%s]" % (args[0].__name__ if args else "?")
    return getattr(t, "__name__", repr(t))


def norm_valid(vv):
    """allowed set -> tuple of merged closed intervals"""
    ns = loader.load()
    iv = []

    def add(v):
        if isinstance(v, range):
            iv.append((v.start, v.stop - 1))
        elif isinstance(v, ns.NamedRange):
            iv.append((v._start, v._end - 1))
        elif isinstance(v, type):
            try:
                members = list(v)
            except TypeError:
                return  # a class that is not an enumeration (never equals a value)
            for m in members:
                add(m)
        else:
            iv.append((int(v), int(v)))

    for v in vv._values:
        add(v)
    iv.sort()
    out = []
    for lo, hi in iv:
        if out and lo <= out[-1][1] + 1:
            out[-1][1] = max(out[-1][1], hi)
        else:
            out.append([lo, hi])
    return tuple(tuple(x) for x in out)


def _cc(v):
    return None if v is None else int(v)


def norm_err(e):
    """exception -> (kind, details dict)"""
    E = loader.load().err
    if isinstance(e, E.ValueConstraintViolatedError):
        c = e.constraint
        return "Value", dict(
            path=str(c.constraint_path),
            type=tyname(c.tpm_type),
            value=int(e.value),
            valid=norm_valid(c.valid_values),
        )
    if isinstance(e, E.AnticipatedSizeConstraintExceededError):
        c = e.constraint
        return "Anticipated", dict(
            cpath=str(c.constraint_path),
            limit=int(c.size_max),
            counted=int(c.size_already),
            violator=str(e.violator_path),
            value=int(e.violator_value),
            by=int(e.exceeded_by),
        )
    if isinstance(e, E.SizeConstraintExceededError):
        c = e.constraint
        return "Exceeded", dict(
            cpath=str(c.constraint_path),
            limit=int(c.size_max),
            counted=int(c.size_already),
            violator=str(e.violator_path),
            by=int(e.exceeded_by),
        )
    if isinstance(e, E.SizeConstraintSubceededError):
        c = e.constraint
        return "Subceeded", dict(cpath=str(c.constraint_path), limit=int(c.size_max), counted=int(c.size_already))
    if isinstance(e, E.InputStreamBytesDepletedError):
        return "Depleted", dict(cc=_cc(e.command_code))
    if isinstance(e, E.InputStreamSuperfluousBytesError):
        return "Superfluous", dict(rem=bytes(e.bytes_remaining).hex(), cc=_cc(e.command_code))
    return "ESCAPE:" + type(e).__name__, dict(msg=str(e)[:120], where=_where(e))


def _where(e):
    """function name (not line) the exception was raised in"""
    tb = e.__traceback__
    name = "?"
    while tb is not None:
        name = tb.tb_frame.f_code.co_name
        tb = tb.tb_next
    return name


def norm_ev(e):
    ns = loader.load()
    if isinstance(e, ns.MarshalEvent):
        v = "..." if e.value is ... else int(e.value)
        return ("E", str(e.path), tyname(e.type), v, type(e.value).__name__)
    if isinstance(e, ns.WarningEvent):
        k, d = norm_err(e.error)
        return ("W", k, tuple(sorted(d.items())))
    return ("?", type(e).__name__)


class Counting:
    """byte source that counts pulls (C06 / C10) and never yields more than it has"""

    __slots__ = ("b", "i", "pulled", "after_end")

    def __init__(self, b):
        self.b = bytes(b)
        self.i = 0
        self.pulled = 0
        self.after_end = 0

    def __iter__(self):
        return self

    def __next__(self):
        if self.i >= len(self.b):
            self.after_end += 1
            raise StopIteration
        v = self.b[self.i]
        self.i += 1
        self.pulled += 1
        return v


class Run:
    __slots__ = ("events", "raw", "kind", "details", "remaining", "exc", "obj", "pulled", "guard")


def make_root(root_path):
    """'log.entry[3]' -> Path(PathNode('log'), PathNode('entry', 3))"""
    import re

    ns = loader.load()
    nodes = []
    for part in root_path.split("."):
        m = re.match(r"^(.*)\[(\d+)\]$", part)
        nodes.append(ns.PathNode(m.group(1), int(m.group(2))) if m else ns.PathNode(part))
    return ns.Path(nodes)


def strip_root(x, root_path):
    """normalised paths are relative to the root: 'log.entry[3].tag' -> '.tag'"""
    if isinstance(x, str) and (x == root_path or x.startswith(root_path + ".")):
        return x[len(root_path):]
    return x


def run(tname, b, cc=None, enc=None, strict=True, keep_raw=False, source=None, root_path=None, keep_root=False):
    """decode b as type tname; returns a Run.  kind is Done / an error kind / ESCAPE:<class> / GUARD"""
    ns = loader.load()
    t = ns.TYPES[tname] if isinstance(tname, str) else tname
    kw = {}
    if cc is not None:
        kw["command_code"] = ns.CC.get(int(cc), cc) if not hasattr(cc, "_value") else cc
    if enc:
        kw["parameter_encryption"] = True
    if root_path:
        kw["root_path"] = make_root(root_path)
    src = Counting(b) if source is None else source
    r = Run()
    r.events, r.raw, r.remaining, r.exc, r.obj, r.guard = [], [] if keep_raw else None, None, None, None, None
    limit = MAX_EVENTS_BASE + MAX_EVENTS_PER_BYTE * len(b)
    g = ns.Binary.marshal(tpm_type=t, buffer=src, abort_on_error=strict, **kw)
    try:
        while True:
            try:
                e = next(g)
            except StopIteration as s:
                r.obj = s.value
                break
            r.events.append(norm_ev(e))
            if keep_raw:
                r.raw.append(e)
            if len(r.events) > limit:
                r.guard = "too-many-events"
                g.close()
                break
        r.kind, r.details = ("Done", {}) if r.guard is None else ("GUARD", {"what": r.guard})
    except Exception as e:  # noqa: BLE001
        r.exc = e
        r.kind, r.details = norm_err(e)
        if isinstance(e, ns.err.ConstraintViolatedError) and e.bytes_remaining is not None:
            try:
                str(e), repr(e)  # a user prints the diagnosis first; that must not change what the error carries
                r.remaining = bytes(e.bytes_remaining)
            except Exception as e2:  # noqa: BLE001
                r.remaining = "ESCAPE:" + type(e2).__name__
    r.pulled = getattr(src, "pulled", None)
    if root_path and not keep_root:
        r.events = [tuple(strip_root(x, root_path) if i in (1,) and e[0] == "E" else x for i, x in enumerate(e)) if e[0] == "E" else (e[0], e[1], tuple((k, strip_root(v, root_path)) for k, v in e[2])) for e in r.events]
        r.details = {k: strip_root(v, root_path) for k, v in r.details.items()}
    return r


def bit_rows(event):
    """the bit rows the pretty printer shows for one attribute-word event, obtained through the public Pretty.unmarshal
    (first row = the value row, the rest = bit rows); no private helper of the printer is used"""
    from tpmstream.io.pretty import Pretty

    rows = list(Pretty.unmarshal(iter([event])))
    return rows[1:]


def find_scanner(modname):
    """the text scanner generator of a front-end module: the generator function defined there that is not `marshal`
    (found by inspection, so that renaming it does not matter)"""
    import importlib
    import inspect

    mod = importlib.import_module(modname)
    cands = [f for f in vars(mod).values() if inspect.isgeneratorfunction(f) and getattr(f, "__module__", None) == mod.__name__ and f.__name__ != "marshal"]
    if len(cands) != 1:
        raise RuntimeError(f"{modname}: expected exactly one scanner generator, found {[f.__name__ for f in cands]}")
    return cands[0]
