"""Model-free tiling checker for warn-mode event lists (DESIGN 4.4).

Walks the *observed* (normalised) events with a cursor into the input.  Every
input byte must be shown in a field, skipped as the reported tail of a sized
region whose overrun / shortfall was reported, or listed as surplus.
"""
from . import values as V

FRAME_SIZES = (".commandSize", ".responseSize")


def tile(b, events, escape_kind=None, escape_allowed=False):
    """events: normalised events of a warn-mode run (impl.norm_ev); escape_kind: kind of the exception that
    ended the run, if any.  Returns a list of problems (clause, detail)."""
    P = V.P()
    pos = 0
    end = {}
    msg_start = 0
    probs = []
    final = None
    tails = []
    n = len(b)
    for i, e in enumerate(events):
        if final is not None:
            probs.append(("event-after-final", f"event {i} {e[:3]} after {final}"))
            break
        if e[0] == "E":
            _, path, tn, val, _cls = e
            if val == "...":
                if path == "" and tn in ("Command", "Response"):
                    msg_start = pos
                continue
            if tn not in P:
                probs.append(("unknown-primitive", f"{path}: {tn}"))
                return probs
            w = P[tn]["size"]
            lo, hi = V.limits(tn)
            if not (lo <= val <= hi):
                probs.append(("value-outside-width", f"{path}: {tn} = {val}"))
                return probs
            chunk = V.enc_int(tn, val)
            if b[pos : pos + w] != chunk:
                probs.append(("field-bytes", f"{path} ({tn}) = {chunk.hex()} but input[{pos}:{pos + w}] = {b[pos:pos + w].hex()} (input length {n})"))
                return probs
            pos += w
            end[path] = pos
        elif e[0] == "W":
            kind, det = e[1], dict(e[2])
            if kind in ("Exceeded", "Subceeded"):
                cp, lim = det["cpath"], det["limit"]
                start = msg_start if cp in FRAME_SIZES else end.get(cp)
                if start is None:
                    probs.append(("unknown-region", f"{kind} on {cp}, whose size field was never shown"))
                    return probs
                tgt = max(pos, start + lim)
                if tgt > pos:
                    tails.append((pos, min(tgt, n)))
                pos = tgt
            elif kind == "Superfluous":
                if bytes.fromhex(det["rem"]) != b[pos:]:
                    probs.append(("surplus", f"Superfluous lists {det['rem']} but the bytes not shown so far are {b[pos:].hex()} (cursor {pos} of {n})"))
                pos = n
                final = "Superfluous"
            elif kind == "Depleted":
                final = "Depleted"
            elif kind in ("Value", "Anticipated"):
                pass
            else:
                probs.append(("unknown-warning", kind))
        else:
            probs.append(("unknown-event", str(e)))
    if escape_kind is not None:
        if not escape_allowed:
            probs.append(("escape", escape_kind))
        if pos > n:
            probs.append(("cursor-past-end", f"cursor {pos} of {n} at the escape"))
        return probs
    if final == "Depleted":
        if pos < n and n - pos >= 8:
            probs.append(("depleted-but-bytes-left", f"Depleted reported at cursor {pos} of {n}"))
    elif final == "Superfluous":
        pass
    else:
        if pos != n:
            probs.append(("not-tiled", f"decoding ended normally with the cursor at {pos} of {n}: {'bytes ' + b[pos:].hex()[:40] + ' neither shown, skipped nor listed' if pos < n else 'a skip past the end of the input was not reported as depleted'}"))
    return probs
