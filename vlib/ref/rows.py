"""Expected rows of the pretty printer / events printer for a (real) event list (DESIGN 4.5)."""
import re

from . import values as V

ANSI = re.compile(r"\x1b\[[0-9;]*m")
ROW = re.compile(
    r"^\x1b\[34m(?P<type>.*?)\x1b\[0m\s* \x1b\[30m(?P<indent>(?:\|   )*)\x1b\[0m\x1b\[92m(?P<name>\..*?)\x1b\[0m\s* \x1b\[33m(?P<hex>.*?)\x1b\[0m (?:\x1b\[33m(?P<value>.*)\x1b\[0m)?$",
    re.S,
)


def parse_row(line):
    """-> ('W', text) | ('R', type column, indent depth, name, hex, value text) | ('?', line)"""
    if line.startswith("\x1b[31m"):
        return ("W", ANSI.sub("", line))
    m = ROW.match(line)
    if not m:
        return ("?", line)
    return ("R", m.group("type"), len(m.group("indent")) // 4, m.group("name"), m.group("hex").strip(), m.group("value") or "")


def _split(path):
    """'.a.b[3]' -> (depth, last node text, parent, name, index)"""
    parts = path.split(".")
    last = parts[-1]
    m = re.match(r"^(.*)\[(\d+)\]$", last)
    name, idx = (m.group(1), int(m.group(2))) if m else (last, None)
    return len(parts) - 1, last, ".".join(parts[:-1]), name, idx


def is_child(parent_path, path):
    _, _, pp, pn, _ = _split(parent_path)
    _, _, cp, cn, ci = _split(path)
    return pp == cp and pn == cn and ci is not None


def expected(events, raw):
    """events: normalised events; raw: the real events (for the value's own text form and attribute words).
    Returns a list of expected rows:
      ('W',) | ('R', type, depth, name, hex, value-or-None, optional) | ('B', depth, name, mask-bits) for bit rows"""
    rows = []
    i, n = 0, len(events)
    prev_was_bytebuf = False
    while i < n:
        e = events[i]
        if e[0] != "E":
            rows.append(("W",))
            i += 1
            continue
        _, path, tn, val, _cls = e
        depth, last, _, _, idx = _split(path)
        name = "." + last
        if val == "..." and tn.startswith("list["):
            if tn == "list[BYTE]":
                buf = b""
                j = i + 1
                warns = 0
                while j < n and (events[j][0] != "E" or is_child(path, events[j][1])):
                    if events[j][0] == "E":
                        buf += V.enc_int(events[j][2], events[j][3])
                    else:
                        warns += 1
                    j += 1
                rows += [("W",)] * warns  # position relative to the buffer row is not checked (D11)
                rows.append(("R", tn, depth, name, buf.hex(), None, False))
                i = j
                continue
            # other list parent: an empty list has exactly one row of its own (else the event would not be shown at
            # all); a list with elements is visible through them and may or may not have a row (D13)
            j = i + 1
            while j < n and events[j][0] != "E":
                j += 1
            empty = not (j < n and is_child(path, events[j][1]))
            rows.append(("R", tn, depth, name, "", "", not empty))
            i += 1
            continue
        if val == "...":
            rows.append(("R", tn, depth, name, "", "", False))
            i += 1
            continue
        ev = raw[i]
        rows.append(("R", tn, depth, name, V.enc_int(tn, val).hex(), format(ev.value), False))
        if hasattr(ev.value, "attributes") and idx is None:
            for a in ev.value.attributes():
                rows.append(("B", depth + 1, "." + a._name, int(a._value)))
        i += 1
    return rows


def compare(lines, exp, width_of=None):
    """-> list of (clause, detail); row order is event order, warnings next to byte buffers tolerated (D11)"""
    got = [parse_row(l) for l in lines]
    probs = []
    unparsed = [g for g in got if g[0] == "?"]
    if unparsed:
        return [("row-unparsable", repr(unparsed[0][1])[:200])]
    gw = sum(1 for g in got if g[0] == "W")
    xw = sum(1 for x in exp if x[0] == "W")
    if gw != xw:
        probs.append(("warning-rows", f"{gw} warning rows for {xw} warnings"))
    g = [r for r in got if r[0] != "W"]
    x = [r for r in exp if r[0] != "W"]
    gi = 0
    for xr in x:
        if xr[0] == "R" and xr[6]:
            # optional row of a non-byte list parent: present (matching) or absent
            if gi < len(g) and g[gi][1:4] == xr[1:4] and g[gi][4] == "":
                gi += 1
            continue
        if gi >= len(g):
            probs.append(("row-missing", f"no row for {xr}"))
            return probs
        gr = g[gi]
        gi += 1
        if xr[0] == "B":
            bits = gr[5].split()[0] if gr[5] else ""
            if gr[1] != "" or gr[2] != xr[1] or gr[3] != xr[2] or gr[4] != "":
                probs.append(("bit-row", f"got {gr}, expected bit row {xr}"))
                return probs
            continue
        if gr[1] != xr[1]:
            probs.append(("row-type", f"got {gr}, expected {xr}"))
        elif gr[2] != xr[2]:
            probs.append(("row-indent", f"got {gr}, expected {xr}"))
        elif gr[3] != xr[3]:
            probs.append(("row-name", f"got {gr}, expected {xr}"))
        elif gr[4] != xr[4]:
            probs.append(("row-hex", f"got {gr}, expected {xr}"))
        elif xr[5] is not None and gr[5] != xr[5]:
            probs.append(("row-value", f"got {gr}, expected {xr}"))
        if probs:
            return probs
    if gi != len(g):
        probs.append(("row-extra", f"{len(g) - gi} extra rows, first {g[gi]}"))
    return probs
