"""Primitive types according to the pinned layout only: valid sets, representatives, byte form, text form."""
import functools

from .. import snapshot


def P():
    return snapshot.pinned()["primitives"]


def S():
    return snapshot.pinned()["structs"]


def C():
    return snapshot.pinned()["commands"]


@functools.lru_cache(maxsize=None)
def cc_by_num():
    return {v["cc"]: k for k, v in C().items()}


@functools.lru_cache(maxsize=None)
def intervals(tn):
    """merged closed intervals of the valid set, ascending"""
    iv = sorted((e["lo"], e["hi"]) for e in P()[tn]["valid"])
    out = []
    for lo, hi in iv:
        if out and lo <= out[-1][1] + 1:
            out[-1][1] = max(out[-1][1], hi)
        else:
            out.append([lo, hi])
    return tuple(tuple(x) for x in out)


def is_valid(tn, v):
    return any(lo <= v <= hi for lo, hi in intervals(tn))


def width(tn):
    return P()[tn]["size"]


def limits(tn):
    p = P()[tn]
    bits = p["size"] * 8
    return (-(1 << (bits - 1)), (1 << (bits - 1)) - 1) if p["signed"] else (0, (1 << bits) - 1)


def enc_int(tn, v):
    p = P()[tn]
    return int(v).to_bytes(p["size"], "big", signed=p["signed"])


def dec_int(tn, raw):
    return int.from_bytes(raw, "big", signed=P()[tn]["signed"])


def _interior(lo, hi, seed):
    span = hi - lo - 1
    if span <= 0:
        return None
    x = (seed * 0x9E3779B97F4A7C15 + 0x632BE59BD9B4E019 + lo * 31 + hi) & 0xFFFFFFFFFFFFFFFF
    return lo + 1 + x % span


@functools.lru_cache(maxsize=None)
def domain(tn, seed=0):
    """ordered representatives of the valid set: for enumerations every member, for every interval both end
    points and one interior representative (the seed picks which); the default (first) is the smallest"""
    p = P()[tn]
    out = []
    if p["kind"] == "enum":
        for e in sorted(p["valid"], key=lambda e: (e["lo"], e["hi"])):
            for v in (e["lo"], e["hi"], _interior(e["lo"], e["hi"], seed)):
                if v is not None and v not in out:
                    out.append(v)
        return tuple(out)
    for lo, hi in intervals(tn):
        for v in (lo, hi, _interior(lo, hi, seed)):
            if v is not None and v not in out:
                out.append(v)
    return tuple(out)


@functools.lru_cache(maxsize=None)
def outside(tn, seed=0):
    """values representable in the width but outside the valid set: just below / above every interval, zero,
    the width limits and one far value"""
    lo_w, hi_w = limits(tn)
    cand = [0, lo_w, hi_w]
    for lo, hi in intervals(tn):
        cand += [lo - 1, hi + 1]
    far = _interior(lo_w, hi_w, seed + 7)
    if far is not None:
        cand.append(far)
    out = []
    for v in cand:
        if lo_w <= v <= hi_w and not is_valid(tn, v) and v not in out:
            out.append(v)
    return tuple(out)


def is_constrained(tn):
    lo_w, hi_w = limits(tn)
    return intervals(tn) != ((lo_w, hi_w),)


def text(tn, v):
    """expected text form (str / format) of T(v) for plain and enumeration-kind types; None when the
    statement does not define one (attribute words, response codes -> C17 / C18)"""
    p = P()[tn]
    if p["kind"] in ("bitfield", "rc"):
        return None
    if p["kind"] == "enum":
        for name, m in p["members"]:
            if isinstance(m, dict):
                if m["lo"] <= v <= m["hi"]:
                    return f"{tn}.{name}.{v - m['lo']:0{m['nibbles']}x}"
        # exact members: duplicates (SHA / SHA1) resolve to the first in member order
        for name, m in p["members"]:
            if not isinstance(m, dict) and m == v:
                return f"{tn}.{name}"
        return f"{tn}.None"
    for e in p["valid"]:
        if e["lo"] <= v <= e["hi"] and e["name"] is not None and e["owner"]:
            if e["range"]:
                return f"{e['owner']}.{e['name']}{e.get('sep', '.')}{v - e['lo']:0{e['nibbles']}x}"
            return f"{e['owner']}.{e['name']}"
    return str(v)
