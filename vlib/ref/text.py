"""Reference automata for the two text scanners, and container builders (DESIGN 4.5 / 5.3).

Each automaton has  init,  step(state, byte) -> (state, outputs),  eof(state) -> 'end' | 'ValueError'.
State tags: 'ERR' = the text is not a sequence of hex pairs (no further output, ValueError at the latest at
EOF); 'OUT' = outside the documented layout (unspecified: the real scanner only has to end in bytes or
ValueError).
"""

HEXD = b"0123456789abcdefABCDEF"
UPHEX = b"0123456789ABCDEF"
WS = b" \t\n\r\x0b\x0c"  # ASCII whitespace, what bytes.strip() strips


class RefHex:
    """pairs of hex digits (any case), ASCII whitespace anywhere between and inside pairs"""

    init = ("H",)

    @staticmethod
    def step(s, c):
        if s[0] == "ERR":
            return s, ()
        if c in WS:
            return s, ()
        if c not in HEXD:
            return ("ERR",), ()
        if s[0] == "H":
            return ("L", c), ()
        return ("H",), (int(bytes([s[1], c]), 16),)

    @staticmethod
    def eof(s):
        return "ValueError" if s[0] in ("L", "ERR") else "end"


MARK = b"SWTPM_IO"


class RefSwtpm:
    """documented swtpm log layout.

    SCAN   : free text / control-channel sections, line by line, until a line *begins* with SWTPM_IO
             ('SCAN', bol, k) - k = length of the marker prefix matched so far at the beginning of the line,
             -1 once the line cannot be a marker line; m = naive partial match inside the line (only used
             to send 'SWTPM_IO' in the middle of a line, or a text ending inside a partial marker, to OUT)
    HDR    : rest of a SWTPM_IO header line
    PAY    : payload lines of upper-case hex pairs; ('PAY', bol, pending high nibble or None, first)
    """

    init = ("SCAN", 0, 0)

    @staticmethod
    def step(s, c):
        tag = s[0]
        if tag in ("ERR", "OUT"):
            return s, ()
        ch = bytes([c])
        if tag == "SCAN":
            # k >= 0: the line so far is MARK[:k]; k == -1: inside a line that is not a marker line.
            # m: exact (KMP) partial match of SWTPM_IO ending here ('S' occurs only at the start of the marker)
            _, k, m = s
            if ch == b"\n":
                return ("SCAN", 0, 0), ()
            if k >= 0:
                if ch == MARK[k : k + 1]:
                    return (("HDR",), ()) if k + 1 == len(MARK) else (("SCAN", k + 1, k + 1), ())
                return ("SCAN", -1, 1 if ch == b"S" else 0), ()
            if ch == MARK[m : m + 1]:
                return (("OUT",), ()) if m + 1 == len(MARK) else (("SCAN", -1, m + 1), ())
            return ("SCAN", -1, 1 if ch == b"S" else 0), ()
        if tag == "HDR":
            return (("PAY", True, None), ()) if ch == b"\n" else (s, ())
        if tag == "PAY":
            _, bol, hi = s
            if hi is None:
                if ch == b" ":
                    return ("PAY", False, None), ()
                if ch == b"\r":
                    return ("PAY", bol, None), ()
                if ch == b"\n":
                    return ("PAY", True, None), ()
                if ch == b"S":
                    return (("SCAN", 1, 1), ()) if bol else (("OUT",), ())
                if ch in UPHEX:
                    return ("PAY", False, (ch, bol)), ()
                return ("ERR",), ()
            (h, hbol) = hi
            if h == b"C" and ch == b"t":
                # 'Ct..' : control-channel section follows; its lines are skipped like free text
                return (("SCAN", -1, 0), ()) if hbol else (("OUT",), ())
            if ch in UPHEX:
                return ("PAY", False, None), (int(h + ch, 16),)
            return ("ERR",), ()
        raise AssertionError(s)

    @staticmethod
    def eof(s):
        tag = s[0]
        if tag == "ERR":
            return "ValueError"
        if tag == "OUT":
            return "any"
        if tag == "SCAN":
            _, k, m = s
            if k > 0:
                return "ValueError"  # the text ends inside a marker at the beginning of a line
            if m > 0:
                return "any"  # ends inside a partial marker in the middle of free text: unspecified
            return "end"
        if tag == "HDR":
            return "ValueError"  # header without payload
        _, bol, hi = s
        return "ValueError" if hi is not None else "end"


# ------------------------------------------------------------------ container builders


def hex_text(b, case="lower", sep="", inside=None, lead="", trail=""):
    """inside: None or (pair index, whitespace string) put between the two digits of that pair"""
    out = []
    for i, x in enumerate(b):
        h = "%02x" % x
        if case == "upper":
            h = h.upper()
        elif case == "mixed":
            h = h[0].upper() + h[1].lower() if i % 2 else h[0].lower() + h[1].upper()
        if inside is not None and inside[0] == i:
            h = h[0] + inside[1] + h[1]
        out.append(h)
    return (lead + sep.join(out) + trail).encode()


def swtpm_log(sections, free=(), eol="\n", per_line=16, lead="", final_eol=True):
    """sections: list of ('io'|'ctrl', payload bytes, kind label); free: free-text lines before the first section"""
    lines = list(free)
    for kind, payload, label in sections:
        if kind == "io":
            lines.append("SWTPM_IO_%s: length %d" % (label, len(payload)))
        else:
            lines.append("Ctrl %s: length %d" % (label, len(payload)))
        for i in range(0, len(payload), per_line):
            lines.append(lead + " ".join("%02X" % x for x in payload[i : i + per_line]))
    text = eol.join(lines)
    if final_eol and lines:
        text += eol
    return text.encode()


def pcapng_file(packets, framing="ip"):
    """packets: list of payload byte strings; written with dpkt's own writer"""
    import io

    import dpkt

    f = io.BytesIO()
    if framing == "ip":
        w = dpkt.pcapng.Writer(f, linktype=dpkt.pcap.DLT_RAW if hasattr(dpkt.pcap, "DLT_RAW") else 101)
    else:
        w = dpkt.pcapng.Writer(f, linktype=1)
    ts = 1.0
    for p in packets:
        tcp = dpkt.tcp.TCP(sport=2321, dport=50000, data=p)
        ip = dpkt.ip.IP(src=b"\x7f\x00\x00\x01", dst=b"\x7f\x00\x00\x01", p=dpkt.ip.IP_PROTO_TCP, data=tcp)
        ip.len = len(bytes(ip))
        if framing == "ip":
            w.writepkt(bytes(ip), ts)
        else:
            # "eth": loopback capture (all-zero MACs); "eth-mac": a capture from a real network segment
            macs = (b"\x00" * 6, b"\x00" * 6) if framing == "eth" else (bytes.fromhex(framing.split(":")[1]) + b"\x38\x39\x01\x02\x03", b"\x4c\x11\x22\x33\x44\x55")
            eth = dpkt.ethernet.Ethernet(src=macs[1], dst=macs[0], type=dpkt.ethernet.ETH_TYPE_IP, data=ip)
            w.writepkt(bytes(eth), ts)
        ts += 1.0
    return f.getvalue()
