"""Choice-driven generator of well-formed encodings over the pinned layout (the driver of engine A).

Every decision comes from ch.choose(n, label); alternative 0 is the default
(smallest valid value, count 0, size 0, payload present, no sessions, success).
The generator also records the events it *intends* to encode, so that the
reference decoder can be checked against it before the implementation is asked.
"""
import json

from . import values as V

ATTRS = (0x00, 0x01, 0x20, 0x40, 0x60, 0x80)
RCS = (0x000, 0x101, 0x922, 0x1C4, 0x98E, 0x18B, 0x500)  # success, fmt0 error, warning, fmt1 parameter, session, handle, vendor
ST_NO_SESSIONS, ST_SESSIONS = 0x8001, 0x8002


class Unencodable(Exception):
    pass


class Gen:
    def __init__(self, ch, seed=0, counts=(0, 1, 2), bufs=(0, 1, 2)):
        self.ch = ch
        self.seed = seed
        self.counts = counts
        self.bufs = bufs
        self.fill = (0xA5 + 37 * seed) & 0xFF
        self.ev = []
        self.P, self.S, self.C = V.P(), V.S(), V.C()

    def emit(self, path, tn, val):
        self.ev.append(("E", path, tn, val, tn if val != "..." else "ellipsis"))

    def fixed(self, tn, path, v):
        self.emit(path, tn, v)
        return V.enc_int(tn, v)

    def prim(self, tn, path, restrict=None):
        d = V.domain(tn, self.seed)
        if restrict is not None:
            d = tuple(v for v in d if restrict(v))
        if not d:
            raise Unencodable(tn)
        v = d[self.ch.choose(len(d), "val:" + path, d)] if len(d) > 1 else d[0]
        self.emit(path, tn, v)
        return V.enc_int(tn, v), v

    def opaque(self, path, n):
        """n opaque bytes as BYTE events; content is one filler value (rotated by the seed) plus the index"""
        out = bytearray()
        for i in range(n):
            b = (self.fill + i) & 0xFF
            self.emit("%s[%d]" % (path, i), "BYTE", b)
            out.append(b)
        return bytes(out)

    def value(self, tn, path, selector=None, count=None):
        if isinstance(tn, dict):
            return self.array(tn, path, count), None
        if tn in self.P:
            return self.prim(tn, path)
        s = self.S[tn]
        if s["kind"] == "tpm2b":
            return self.tpm2b(tn, path), None
        if s["kind"] == "union":
            return self.union(tn, path, selector), None
        return self.struct(tn, path), None

    def array(self, tn, path, count):
        self.emit(path, "list[%s]" % tn["list"], "...")
        if tn["list"] == "BYTE":
            return self.opaque(path, count)
        return b"".join(self.value(tn["list"], "%s[%d]" % (path, i))[0] for i in range(count))

    def struct(self, tn, path, enc=False):
        s = self.S[tn]
        flds = s["fields"]
        self.emit(path, tn, "...")
        out = b""
        vals = {}
        sel = dict(s.get("selectors", []))
        for idx, (name, ft) in enumerate(flds):
            fp = path + "." + name
            nxt = flds[idx + 1][1] if idx + 1 < len(flds) else None
            if enc and idx == 0:
                # opaque first parameter (parameter encryption)
                n = self.bufs[self.ch.choose(len(self.bufs), "encsize:" + fp)]
                self.emit(fp, "TPM2B_ENCRYPTED_PARAM", "...")
                out += self.fixed("UINT16", fp + ".size", n)
                self.emit(fp + ".encryptedParam", "list[BYTE]", "...")
                out += self.opaque(fp + ".encryptedParam", n)
            elif isinstance(ft, dict):
                out += self.array(ft, fp, vals[flds[idx - 1][0]])
            elif name in sel:
                out += self.value(ft, fp, selector=vals[sel[name]])[0]
            elif isinstance(nxt, dict) and ft in self.P:
                cs = tuple(c for c in self.counts if V.is_valid(ft, c))
                if not cs:
                    raise Unencodable(ft)
                n = cs[self.ch.choose(len(cs), "count:" + fp)]
                out += self.fixed(ft, fp, n)
                vals[name] = n
            else:
                b, v = self.value(ft, fp)
                out += b
                vals[name] = v
        return out

    def tpm2b(self, tn, path):
        (sn, st), (bn, bt) = self.S[tn]["fields"]
        self.emit(path, tn, "...")
        if isinstance(bt, dict):
            n = self.bufs[self.ch.choose(len(self.bufs), "size:" + path)]
            out = self.fixed(st, path + "." + sn, n)
            self.emit(path + "." + bn, "list[%s]" % bt["list"], "...")
            return out + self.opaque(path + "." + bn, n)
        if self.ch.choose(2, "empty:" + path) == 1:
            out = self.fixed(st, path + "." + sn, 0)
            self.emit(path + "." + bn, bt, "...")
            return out
        # size is known only after the payload: generate the payload on a scratch event list
        saved = self.ev
        self.ev = []
        body = self.value(bt, path + "." + bn)[0]
        inner, self.ev = self.ev, saved
        if len(body) == 0:
            # an empty encoding is indistinguishable from the empty marker
            out = self.fixed(st, path + "." + sn, 0)
            self.emit(path + "." + bn, bt, "...")
            return out
        out = self.fixed(st, path + "." + sn, len(body))
        self.ev += inner
        return out + body

    def union(self, tn, path, selector):
        s = self.S[tn]
        self.emit(path, tn, "...")
        rev = {}
        for m, v in s["selected_by"]:
            rev[json.dumps(v)] = m
        key = json.dumps(selector)
        arm = rev[key] if key in rev else rev.get("null")
        if arm is None:
            raise Unencodable("%s: selector %r selects no member" % (tn, selector))
        ft = dict((n, t) for n, t in s["fields"])[arm]
        if ft is None:
            return b""
        if isinstance(ft, dict):
            return self.array(ft, path + "." + arm, dict(s["list_size"])[arm])
        return self.value(ft, path + "." + arm)[0]

    # ---- frames
    def first_param_is_tpm2b(self, area):
        f = self.S[area]["fields"]
        return bool(f) and isinstance(f[0][1], str) and f[0][1].startswith("TPM2B")

    def _session_cmd(self, path, allow):
        self.emit(path, "TPMS_AUTH_COMMAND", "...")
        out = self.prim("TPMI_SH_AUTH_SESSION", path + ".sessionHandle")[0]
        out += self.tpm2b("TPM2B_NONCE", path + ".nonce")
        al = [a for a in ATTRS if allow(a)]
        a = al[self.ch.choose(len(al), "attrs:" + path, al)]
        out += self.fixed("TPMA_SESSION", path + ".sessionAttributes", a)
        out += self.tpm2b("TPM2B_AUTH", path + ".hmac")
        return out, a

    def _session_rsp(self, path, allow):
        self.emit(path, "TPMS_AUTH_RESPONSE", "...")
        out = self.tpm2b("TPM2B_NONCE", path + ".nonce")
        al = [a for a in ATTRS if allow(a)]
        a = al[self.ch.choose(len(al), "attrs:" + path, al)]
        out += self.fixed("TPMA_SESSION", path + ".sessionAttributes", a)
        out += self.tpm2b("TPM2B_AUTH", path + ".hmac")
        return out, a

    def command(self, ccname, path="", max_sessions=3, allow_encrypt=True):
        """returns (bytes, wants_response_encryption)"""
        c = self.C[ccname]
        can_enc = self.first_param_is_tpm2b(c["cp"])
        nsess = self.ch.choose(max_sessions + 2, "sessions:" + path)
        empty_area = nsess == max_sessions + 1  # last alternative: the sessions tag with an empty authorization area
        if empty_area:
            nsess = 0
        saved, self.ev = self.ev, []
        body = self.fixed("TPM_CC", path + ".commandCode", c["cc"])
        body += self.struct(c["ch"], path + ".handles")
        dec = encr = False
        if empty_area:
            body += self.fixed("UINT32", path + ".authSize", 0)
            self.emit(path + ".authorizationArea", "list[TPMS_AUTH_COMMAND]", "...")
        if nsess:
            sev, self.ev = self.ev, []
            area = b""
            self.emit(path + ".authorizationArea", "list[TPMS_AUTH_COMMAND]", "...")
            for i in range(nsess):
                b, a = self._session_cmd("%s.authorizationArea[%d]" % (path, i), lambda a: (can_enc or not a & 0x20) and (allow_encrypt or not a & 0x40))
                area += b
                dec |= bool(a & 0x20)
                encr |= bool(a & 0x40)
            aev, self.ev = self.ev, sev
            body += self.fixed("UINT32", path + ".authSize", len(area)) + area
            self.ev += aev
        body += self.struct(c["cp"], path + ".parameters", enc=dec)
        bev, self.ev = self.ev, saved
        self.emit(path, "Command", "...")
        out = self.fixed("TPMI_ST_COMMAND_TAG", path + ".tag", ST_SESSIONS if (nsess or empty_area) else ST_NO_SESSIONS)
        out += self.fixed("UINT32", path + ".commandSize", len(body) + 6)
        self.ev += bev
        return out + body, encr

    def response(self, ccname, enc=None, path="", max_sessions=3):
        """enc: None = chosen here (when the first response parameter is a TPM2B), else forced (stream pairing).
        returns (bytes, enc)"""
        c = self.C[ccname]
        can_enc = self.first_param_is_tpm2b(c["rp"])
        rc = RCS[self.ch.choose(len(RCS), "rc:" + path)] if not enc else 0
        if enc is None:
            if rc == 0:
                enc = bool(can_enc and self.ch.choose(2, "enc:" + path))
            else:
                # a failed response is header-only whatever flag it is decoded with (the flag comes from the command)
                enc = bool(self.ch.choose(2, "failflag:" + path))
        if enc and not can_enc and rc == 0:
            raise Unencodable("response encryption without a TPM2B first parameter")
        saved, self.ev = self.ev, []
        body = self.fixed("TPM_RC", path + ".responseCode", rc)
        tag = ST_NO_SESSIONS
        if rc == 0:
            empty_area = False
            if enc:
                nsess = 1 + self.ch.choose(max_sessions, "sessions:" + path)
            else:
                nsess = self.ch.choose(max_sessions + 2, "sessions:" + path)
                empty_area = nsess == max_sessions + 1  # the sessions tag, parameterSize, and no session at all
                if empty_area:
                    nsess = 0
            body += self.struct(c["rh"], path + ".handles")
            pev, self.ev = self.ev, []
            params = self.struct(c["rp"], path + ".parameters", enc=enc)
            parev, self.ev = self.ev, pev
            if nsess or empty_area:
                tag = ST_SESSIONS
                body += self.fixed("UINT32", path + ".parameterSize", len(params))
            body += params
            self.ev += parev
            if nsess or empty_area:
                self.emit(path + ".authorizationArea", "list[TPMS_AUTH_RESPONSE]", "...")
                for i in range(nsess):
                    if enc and i == 0:
                        allow = lambda a: a & 0x40  # noqa: E731 - the flag must be carried by some session (D8)
                    elif enc:
                        allow = lambda a: True  # noqa: E731
                    else:
                        allow = lambda a: not a & 0x40  # noqa: E731
                    body += self._session_rsp("%s.authorizationArea[%d]" % (path, i), allow)[0]
        else:
            # failed responses: header only; the tag may be any TPM_ST member without the session meaning (D7)
            tag = (ST_NO_SESSIONS, 0x00C4)[self.ch.choose(2, "failtag:" + path)]
        bev, self.ev = self.ev, saved
        self.emit(path, "Response", "...")
        out = self.fixed("TPM_ST", path + ".tag", tag)
        out += self.fixed("UINT32", path + ".responseSize", len(body) + 6)
        self.ev += bev
        return out + body, enc
