"""Reference decoder over the pinned layout (DESIGN 4.2 / 4.3).

Whole-buffer recursive descent with an explicit offset and an explicit list of
open regions; no coroutines, none of tpmstream's classes.  Strict mode stops at
the first problem; lenient mode differs only in that an out-of-range value is
emitted, followed by a warning marker, and decoding continues.
"""
import json

from . import values as V


class Stop(Exception):
    def __init__(self, kind, **kw):
        self.kind = kind
        self.d = kw


class Region:
    __slots__ = ("path", "limit", "counted", "start", "closed")

    def __init__(self, path=None, limit=None, start=0):
        self.path, self.limit, self.counted, self.start, self.closed = path, limit, 0, start, False


class Result:
    __slots__ = ("events", "kind", "details", "pos", "fields", "last_cc", "nwarn", "msgs", "snapshot")

    @property
    def remaining_from(self):
        return self.pos


class Dec:
    def __init__(self, buf, lenient=False):
        self.b = bytes(buf)
        self.pos = 0
        self.ev = []
        self.regions = []
        self.lenient = lenient
        self.last_cc = None
        self.nwarn = 0
        self.fields = []  # (path, type, offset, width, value, role)
        self.msgs = []  # (kind, start offset, cc, enc) per message of a stream / frame
        self.stack = []  # pending work of the recursive descent (engine B pairs it with the implementation's state)
        self.snapshot = None
        self.P, self.S, self.C = V.P(), V.S(), V.C()

    # -- events
    def emit(self, path, tn, val):
        self.ev.append(("E", path, tn, val, tn if val != "..." else "ellipsis"))

    def warn(self, kind, **kw):
        self.ev.append(("W", kind, tuple(sorted(kw.items()))))
        self.nwarn += 1

    # -- bytes
    def take(self, n, what=None):
        if self.pos + n > len(self.b):
            # canonical description of everything the rest of the walk depends on
            self.snapshot = (
                tuple(tuple(tuple(sorted(x.items())) if isinstance(x, dict) else x for x in f) for f in self.stack),
                tuple((r.path, r.limit, r.counted, r.closed) for r in self.regions if not r.closed),
                what,
                self.b[self.pos :],
            )
            self.pos = len(self.b)
            raise Stop("Depleted")
        r = self.b[self.pos : self.pos + n]
        self.pos += n
        return r

    def prim(self, tn, path, role="leaf"):
        p = self.P[tn]
        w = p["size"]
        for r in self.regions:
            if r.closed:
                continue
            if r.limit is not None and r.counted + w > r.limit:
                tail = r.limit - r.counted
                d = dict(cpath=r.path, limit=r.limit, counted=r.counted, violator=path, by=r.counted + w - r.limit)
                if tail > 0:
                    self.take(tail, ("skip", r.path, tail))
                raise Stop("Exceeded", **d)
            r.counted += w
        off = self.pos
        raw = self.take(w, ("field", path, tn, role))
        v = int.from_bytes(raw, "big", signed=p["signed"])
        self.fields.append((path, tn, off, w, v, role))
        if not V.is_valid(tn, v):
            d = dict(path=path, type=tn, value=v, valid=V.intervals(tn))
            if not self.lenient:
                raise Stop("Value", **d)
            self.emit(path, tn, v)
            self.warn("Value", **d)
            return v
        self.emit(path, tn, v)
        return v

    def anticipate(self, path, limit, skip=None):
        for r in self.regions:
            if r.closed or r is skip:
                continue
            if r.limit is not None and r.counted + limit > r.limit:
                raise Stop(
                    "Anticipated",
                    cpath=r.path,
                    limit=r.limit,
                    counted=r.counted,
                    violator=path,
                    value=limit,
                    by=r.counted + limit - r.limit,
                )

    def open_region(self, path, limit):
        self.anticipate(path, limit)
        r = Region(path, limit, self.pos)
        self.regions.append(r)
        return r

    def close_region(self, r):
        r.closed = True
        if r.counted != r.limit:
            raise Stop("Subceeded", cpath=r.path, limit=r.limit, counted=r.counted)

    # -- types
    def value(self, tn, path, selector=None, count=None, enc=False, role="leaf"):
        if isinstance(tn, dict):
            return self.array(tn, path, count)
        if tn in self.P:
            return self.prim(tn, path, role)
        s = self.S[tn]
        if s["kind"] == "tpm2b":
            return self.tpm2b(tn, path)
        if s["kind"] == "union":
            return self.union(tn, path, selector)
        return self.struct(tn, path, enc)

    def array(self, tn, path, count):
        self.emit(path, "list[%s]" % tn["list"], "...")
        fr = ["array", tn["list"], 0, count]
        self.stack.append(fr)
        for i in range(count):
            fr[2] = i
            self.value(tn["list"], "%s[%d]" % (path, i))
        self.stack.pop()

    def struct(self, tn, path, enc=False):
        s = self.S[tn]
        flds = [list(f) for f in s["fields"]]
        if enc and s.get("is_params"):
            if not flds or isinstance(flds[0][1], dict) or not str(flds[0][1]).startswith("TPM2B"):
                raise Stop("EncNotApplicable", type=tn)
            flds[0][1] = "TPM2B_ENCRYPTED_PARAM"
        self.emit(path, tn, "...")
        vals = {}
        sel = dict(s.get("selectors", []))
        selectors = set(sel.values())
        fr = ["struct", tn, bool(enc), 0, vals]
        self.stack.append(fr)
        for i, (name, ft) in enumerate(flds):
            fr[3] = i
            fp = path + "." + name
            if isinstance(ft, dict):
                self.array(ft, fp, vals[flds[i - 1][0]])
            elif name in sel:
                self.value(ft, fp, selector=vals[sel[name]])
            else:
                nxt = flds[i + 1][1] if i + 1 < len(flds) else None
                role = "count" if isinstance(nxt, dict) else "selector" if name in selectors else "leaf"
                v = self.value(ft, fp, role=role)
                if ft in self.P:
                    vals[name] = v
        self.stack.pop()
        return None

    def tpm2b(self, tn, path):
        s = self.S[tn]
        (sn, st), (bn, bt) = s["fields"]
        self.emit(path, tn, "...")
        self.stack.append(["tpm2b", tn, None])
        size = self.prim(st, path + "." + sn, role="size")
        self.stack[-1][2] = size
        r = self.open_region(path + "." + sn, size)
        if isinstance(bt, dict):
            self.array(bt, path + "." + bn, size)
        elif size == 0:
            self.emit(path + "." + bn, bt, "...")
        else:
            self.value(bt, path + "." + bn)
        self.close_region(r)
        self.stack.pop()

    def union(self, tn, path, selector):
        s = self.S[tn]
        self.emit(path, tn, "...")
        rev = {}
        for m, v in s["selected_by"]:
            rev[json.dumps(v)] = m  # later member wins (D6)
        key = json.dumps(selector)
        if key in rev and not key.startswith("{"):
            arm = rev[key]
        elif "null" in rev:
            arm = rev["null"]
        else:
            raise Stop("NoMember", path=path, type=tn, selector=selector)
        ft = dict((n, t) for n, t in s["fields"])[arm]
        if ft is None:
            return
        self.stack.append(["union", tn, arm])
        if isinstance(ft, dict):
            self.array(ft, path + "." + arm, dict(s["list_size"])[arm])
        else:
            self.value(ft, path + "." + arm)
        self.stack.pop()

    # -- frames
    def _sessions(self, elem, path, region):
        dec = enc = False
        self.emit(path + ".authorizationArea", "list[%s]" % elem, "...")
        i = 0
        fr = ["sessions", elem, 0, False, False]
        self.stack.append(fr)
        while region.counted < region.limit:
            fr[2:] = [i, dec, enc]
            n0 = len(self.fields)
            self.struct(elem, "%s.authorizationArea[%d]" % (path, i))
            attrs = [f for f in self.fields[n0:] if f[0].endswith(".sessionAttributes")][0][4]
            dec |= bool(attrs & 0x20)
            enc |= bool(attrs & 0x40)
            i += 1
        self.stack.pop()
        return dec, enc

    def command(self, path=""):
        start = self.pos
        self.emit(path, "Command", "...")
        creg = Region(None, None, self.pos)
        self.regions = [creg]
        fr = ["command", None, None, False, False, "header"]
        self.stack.append(fr)
        tag = self.prim("TPMI_ST_COMMAND_TAG", path + ".tag", role="tag")
        fr[1] = tag
        size = self.prim("UINT32", path + ".commandSize", role="size")
        creg.path = path + ".commandSize"
        creg.limit = size
        cc = self.prim("TPM_CC", path + ".commandCode", role="cc")
        self.last_cc = cc
        fr[2] = cc
        if cc not in V.cc_by_num():
            raise Stop("UnknownCC", path=path + ".commandCode", type="TPM_CC", value=cc, valid=V.intervals("TPM_CC"))
        c = self.C[V.cc_by_num()[cc]]
        fr[5] = "handles"
        self.struct(c["ch"], path + ".handles")
        dec = encr = False
        fr[5] = "auth"
        if tag == 0x8002:
            asz = self.prim("UINT32", path + ".authSize", role="size")
            self.anticipate(path + ".authSize", asz, skip=None)
            areg = Region(path + ".authSize", asz, self.pos)
            self.regions.append(areg)
            dec, encr = self._sessions("TPMS_AUTH_COMMAND", path, areg)
            self.close_region(areg)
        fr[3:] = [dec, encr, "params"]
        self.struct(c["cp"], path + ".parameters", enc=dec)
        self.close_region(creg)
        self.stack.pop()
        self.msgs.append(("Command", start, cc, encr))
        return cc, encr

    def response(self, cc, enc, path=""):
        start = self.pos
        self.emit(path, "Response", "...")
        rreg = Region(None, None, self.pos)
        self.regions = [rreg]
        fr = ["response", cc, bool(enc), None, None, "header"]
        self.stack.append(fr)
        tag = self.prim("TPM_ST", path + ".tag", role="tag")
        fr[3] = tag
        size = self.prim("UINT32", path + ".responseSize", role="size")
        rreg.path = path + ".responseSize"
        rreg.limit = size
        rc = self.prim("TPM_RC", path + ".responseCode", role="rc")
        fr[4] = rc
        if rc == 0:
            if cc not in V.cc_by_num():
                raise Stop("UnknownCC", value=cc)
            c = self.C[V.cc_by_num()[cc]]
            fr[5] = "handles"
            self.struct(c["rh"], path + ".handles")
            fr[5] = "params"
            preg = None
            if tag == 0x8002:
                psz = self.prim("UINT32", path + ".parameterSize", role="size")
                preg = self.open_region(path + ".parameterSize", psz)
            self.struct(c["rp"], path + ".parameters", enc=bool(enc))
            if preg:
                self.close_region(preg)
            fr[5] = "sessions"
            if tag == 0x8002:
                _, anyenc = self._sessions("TPMS_AUTH_RESPONSE", path, rreg)
                if anyenc != bool(enc):
                    raise Stop("EncInconsistent")
        self.close_region(rreg)
        self.stack.pop()
        self.msgs.append(("Response", start, cc, bool(enc)))


def decode(root, buf, cc=None, enc=None, lenient=False):
    d = Dec(buf, lenient)
    res = Result()
    kind, det = "Done", {}
    try:
        if root == "Command":
            d.command()
        elif root == "Response":
            d.response(cc, enc)
        elif root == "CommandResponseStream":
            d.stack.append(["stream"])
            while d.pos < len(d.b):
                d.stack[:] = [["stream", "command"]]
                c, e = d.command()
                if d.pos >= len(d.b):
                    break
                d.stack[:] = [["stream", "response"]]
                d.response(c, e)
        else:
            d.value(root, "")
        if d.pos < len(d.b):
            kind, det = "Superfluous", {"rem": d.b[d.pos :].hex(), "cc": d.last_cc}
    except Stop as s:
        kind, det = s.kind, dict(s.d)
        if kind == "Depleted":
            det["cc"] = d.last_cc
    res.events, res.kind, res.details, res.pos = d.ev, kind, det, d.pos
    res.fields, res.last_cc, res.nwarn, res.msgs = d.fields, d.last_cc, d.nwarn, d.msgs
    res.snapshot = d.snapshot if kind == "Depleted" else None
    if root == "CommandResponseStream" and kind == "Done":
        # a stream at a message boundary: the next message's tag is pending; what follows depends on the last command
        last = d.msgs[-1] if d.msgs else None
        if last is None or last[0] == "Response":
            res.snapshot = ((("stream", "command"),), (), ("field", ".tag", "TPMI_ST_COMMAND_TAG", "tag"), b"")
        else:
            res.snapshot = ((("stream", "response", last[2], last[3]),), (), ("field", ".tag", "TPM_ST", "tag"), b"")
    return res
