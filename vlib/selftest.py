"""setup_cmd: nothing to build; verify that the interpreter, the tree under test and the pin are usable."""
import sys

from . import loader, snapshot


def main():
    ns = loader.load()
    p = snapshot.pinned()
    print("tpmstream from", loader.SRC, "-", len(ns.structures_types), "structure types,", len(p["commands"]), "pinned command codes")
    return 0


if __name__ == "__main__":
    sys.exit(main())
