"""Engine D: preemption-bounded interleavings of step-wise decoders (generators as threads), DESIGN 5.4.

A schedule is a word over decoder ids; one step advances a decoder by one event.
Exploration is depth-first; switching away from a decoder that could still run
costs one preemption.  Every schedule runs to completion.
"""


def schedules(lens, maxpre):
    """all complete schedules for decoders that need lens[i] steps, with at most maxpre preemptions.
    yields (schedule tuple, preemptions).  Canonical order: the running decoder first, then ascending ids."""
    n = len(lens)
    out = []

    def rec(sched, pos, cur, pre):
        enabled = [i for i in range(n) if pos[i] < lens[i]]
        if not enabled:
            out.append((tuple(sched), pre))
            return
        order = ([cur] if cur in enabled else []) + [i for i in enabled if i != cur]
        for i in order:
            cost = pre + (1 if (cur in enabled and i != cur) else 0)
            if cost > maxpre:
                continue
            pos[i] += 1
            sched.append(i)
            rec(sched, pos, i, cost)
            sched.pop()
            pos[i] -= 1

    rec([], [0] * n, 0, 0)
    return out


def run_schedule(makers, schedule):
    """makers: callables returning fresh generators.  Returns (outputs per decoder, return values, errors)"""
    gens = [m() for m in makers]
    outs = [[] for _ in makers]
    rets = [None] * len(makers)
    errs = [None] * len(makers)
    done = [False] * len(makers)
    steps = 0
    for tid in schedule:
        if done[tid]:
            continue  # finished earlier than in its solo run: the comparison of the results reports it
        steps += 1
        try:
            outs[tid].append(next(gens[tid]))
        except StopIteration as s:
            done[tid] = True
            rets[tid] = s.value
        except Exception as e:  # noqa: BLE001
            done[tid] = True
            errs[tid] = e
    # a decoder that needs more steps than in its solo run is drained at the end (the results will differ)
    for tid, g in enumerate(gens):
        while not done[tid] and len(outs[tid]) < 100000:
            steps += 1
            try:
                outs[tid].append(next(g))
            except StopIteration as s:
                done[tid] = True
                rets[tid] = s.value
            except Exception as e:  # noqa: BLE001
                done[tid] = True
                errs[tid] = e
    return outs, rets, errs, done, steps
