"""Engine A: deviation-bounded stateless exploration of a choice tree (DESIGN 5.1).

A harness body takes every decision from ch.choose(n, label); alternative 0 is
the default answer.  explore() runs the body for every choice vector with at
most k non-default entries: run the empty prefix, then for every choice point
of that run and every alternative a >= 1, recurse with choices[:i] + [a] while
the number of deviations stays <= k.  A replayed prefix that meets a different
(n, label) than recorded is a hard error (non-determinism in the harness).
"""


class ReplayDivergence(Exception):
    pass


class Chooser:
    __slots__ = ("prefix", "trace", "expect", "defaults", "dev")

    def __init__(self, prefix=(), expect=None, defaults=()):
        self.prefix = tuple(prefix)
        self.trace = []  # (n, label, chosen)
        self.expect = expect  # recorded (n, label) of the parent run for the replayed prefix
        self.dev = 0
        self.defaults = tuple(defaults)  # ((label prefix, alternative), ...): the default answer of a harness variant

    def default(self, n, label, values=None):
        for pre, alt in self.defaults:
            if label.startswith(pre):
                if isinstance(alt, (tuple, list)):  # ("v", value): the alternative that stands for this value
                    return list(values).index(alt[1]) if values is not None and alt[1] in values else 0
                return min(alt, n - 1)
        return 0

    def choose(self, n, label="", values=None):
        i = len(self.trace)
        if i < len(self.prefix):
            c = self.prefix[i]
            if c >= n:
                raise ReplayDivergence(f"choice {i} out of range: {c} >= {n} at {label}")
            if self.expect is not None and i < len(self.expect) and self.expect[i] != (n, label):
                raise ReplayDivergence(f"choice {i}: recorded {self.expect[i]}, now {(n, label)}")
        else:
            c = self.default(n, label, values) if self.defaults else 0
        self.trace.append((n, label, c))
        return c

    @property
    def choices(self):
        return tuple(t[2] for t in self.trace)

    @property
    def deviations(self):
        return sum(1 for t in self.trace if t[2])


class Stats:
    __slots__ = ("executions", "nodes", "edges", "max_points", "max_dev", "cap_hit")

    def __init__(self):
        self.executions = self.nodes = self.edges = self.max_points = self.max_dev = 0
        self.cap_hit = False


def explore(body, k, on_exec, max_exec=None, defaults=()):
    """runs body(ch) for every choice vector with <= k deviations; on_exec(ch, result) is the oracle.
    returns Stats (nodes = choice points visited, edges = alternatives expanded)"""
    st = Stats()
    stack = [((), None, 0)]
    while stack:
        prefix, expect, dev = stack.pop()
        ch = Chooser(prefix, expect, defaults)
        ch.dev = dev
        res = body(ch)
        st.executions += 1
        on_exec(ch, res)
        tr = ch.trace
        st.max_points = max(st.max_points, len(tr))
        st.max_dev = max(st.max_dev, dev)
        st.nodes += len(tr) - len(prefix) + (1 if not prefix else 0)
        if dev + 1 > k:
            continue
        rec = tuple((t[0], t[1]) for t in tr)
        base = tuple(t[2] for t in tr)
        for i in range(len(prefix), len(tr)):
            n, _, c0 = tr[i]
            for alt in range(n):
                if alt == c0:
                    continue
                st.edges += 1
                stack.append((base[:i] + (alt,), rec[: i + 1], dev + 1))
        if max_exec is not None and st.executions >= max_exec:
            st.cap_hit = bool(stack)
            break
    return st


def replay(body, choices, defaults=()):
    ch = Chooser(tuple(choices), None, defaults)
    return ch, body(ch)
