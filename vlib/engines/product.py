"""Engine C: product closure of a real scanner generator and a reference automaton (DESIGN 5.3).

A state is (f_lasti + locals of the real generator when it asks for the next input byte, reference state).
A transition feeds one byte (out of all 256) to both; EOF is tried in every state.  Both components are
finite, the search runs to closure, so agreement holds for every input of every length.
"""
import collections


import sys
import types


def absval(v, depth=0):
    """abstract a local of the scanner: plain data is kept, objects are opened (their attributes), iterators /
    generators / functions / the byte source itself are opaque (their identity must not make states distinct)"""
    if v is None or isinstance(v, (bool, int, float, str, bytes)):
        return v
    if isinstance(v, bytearray):
        return bytes(v)
    if isinstance(v, (list, tuple)):
        return tuple(absval(x, depth + 1) for x in v)
    if isinstance(v, dict):
        return tuple(sorted((str(k), absval(x, depth + 1)) for k, x in v.items()))
    if isinstance(v, (Feed, types.GeneratorType, types.FunctionType, types.MethodType, types.BuiltinFunctionType, types.ModuleType, type)) or hasattr(v, "__next__"):
        return ("<opaque>", type(v).__name__)
    if hasattr(v, "__dict__") and depth < 3:
        return (type(v).__name__,) + tuple(sorted((k, absval(x, depth + 1)) for k, x in vars(v).items()))
    if hasattr(v, "__slots__") and depth < 3:
        return (type(v).__name__,) + tuple((k, absval(getattr(v, k, None), depth + 1)) for k in v.__slots__)
    return ("<opaque>", type(v).__name__)


class Feed:
    """byte source that captures the scanner's state when it asks for the byte after the prefix: every frame between
    this call and the harness (the scanner generator and whatever helpers it calls), by instruction offset and
    abstracted locals - no name of the scanner's code is assumed"""

    def __init__(self, b, skip):
        self.b = bytes(b)
        self.i = 0
        self.g = None
        self.state = None
        self.skip = skip

    def __iter__(self):
        return self

    def __next__(self):
        if self.i >= len(self.b):
            if self.state is None and self.g is not None and self.g.gi_frame is not None:
                out = []
                f = sys._getframe(1)
                while f is not None and "/vlib/" not in f.f_code.co_filename:
                    # self.skip: locals of the current implementation that are dead at this point (the last character
                    # read, the last byte produced); keeping them would only multiply the states by 256 x 256.  If the
                    # code is restructured and the closure no longer terminates, the caller falls back to a bounded
                    # exploration - it never reports non-closure as a violation.
                    out.append((f.f_code.co_name, f.f_lasti, tuple(sorted((k, absval(v)) for k, v in f.f_locals.items() if k not in self.skip))))
                    f = f.f_back
                self.state = tuple(out)
            raise StopIteration
        v = self.b[self.i]
        self.i += 1
        return v


def run_real(scan, prefix, skip=("buffer", "b", "i")):
    f = Feed(prefix, skip)
    g = scan(f)
    f.g = g
    out = []
    try:
        for x in g:
            out.append(x)
        end = "end"
    except ValueError:
        end = "ValueError"
    except Exception as e:  # noqa: BLE001
        end = "ESC:" + type(e).__name__
    return f.state, tuple(out), end, f.i


def bounded(scan, ref, letters, depth):
    """fallback when the closure does not terminate: every string of length <= depth over a reduced alphabet
    (representatives of the reference automaton's letter classes).  -> dict(strings, mismatches)"""
    import itertools

    mism = {}
    n = 0
    for L in range(depth + 1):
        for tup in itertools.product(letters, repeat=L):
            q = bytes(tup)
            n += 1
            st, routs = ref.init, ()
            for c in q:
                st, o = ref.step(st, c)
                routs += o
            rs, out, end, consumed = run_real(scan, q)
            tag = st[0]
            if end.startswith("ESC"):
                mism.setdefault(("exception", end), (q, f"scanner raised {end}"))
                continue
            if tag == "OUT":
                continue
            if out != routs:
                mism.setdefault(("outputs", tag), (q, f"scanner yields {out[-4:]}, reference {routs[-4:]}"))
                continue
            want = ref.eof(st)
            if rs is None and not (end == "ValueError" and tag == "ERR"):
                mism.setdefault(("terminated-early", end, tag), (q, f"scanner ended with {end}, reference state {st}"))
            elif rs is not None and want != "any" and end != want:
                mism.setdefault(("eof", end, want), (q, f"at end of input the scanner gives {end}, reference {want}"))
    return dict(strings=n, mismatches=mism)


def closure(scan, ref, alphabet=range(256), max_states=40000):
    """-> dict(states, transitions, mismatches {key: (access string, detail)}, closed, covered (non-OUT states),
    access strings of a few states)"""
    seen = {}
    frontier = collections.deque()
    trans = 0
    mism = {}
    rs0, out0, end0, _ = run_real(scan, b"")
    seen[(rs0, ref.init)] = b""
    frontier.append((b"", ref.init, ()))
    if out0:
        mism[("output-before-input",)] = (b"", str(out0))

    def eof_ok(end, want):
        if end.startswith("ESC"):
            return False
        return want == "any" or end == want

    if not eof_ok(end0, ref.eof(ref.init)):
        mism[("eof", end0, ref.eof(ref.init))] = (b"", "empty input")
    while frontier:
        p, rstate, routs = frontier.popleft()
        for c in alphabet:
            q = p + bytes([c])
            trans += 1
            rs, out, end, consumed = run_real(scan, q)
            nr, o = ref.step(rstate, c)
            nouts = routs + o
            tag = nr[0]
            if end.startswith("ESC"):
                mism.setdefault(("exception", end), (q, f"scanner raised {end}"))
                continue
            if tag == "OUT":
                # unspecified language: only 'bytes or ValueError' is required; keep exploring the real scanner
                key = (rs, ("OUT",))
                if rs is not None and key not in seen:
                    seen[key] = q
                    frontier.append((q, nr, out))
                continue
            if rstate[0] == "OUT":
                continue
            if out != nouts:
                mism.setdefault(("outputs", tag), (q, f"scanner yields {out[-4:]}, reference {nouts[-4:]}"))
                continue
            if rs is None:
                # the scanner terminated without asking for more input
                if end == "ValueError" and tag == "ERR":
                    continue
                mism.setdefault(("terminated-early", end, tag), (q, f"scanner ended with {end} after {consumed} of {len(q)} bytes, reference state {nr}"))
                continue
            want = ref.eof(nr)
            if not eof_ok(end, want):
                mism.setdefault(("eof", end, want), (q, f"at end of input the scanner gives {end}, reference {want} (state {nr})"))
            key = (rs, nr)
            if key not in seen:
                seen[key] = q
                frontier.append((q, nr, nouts))
                if len(seen) > max_states:
                    return dict(states=len(seen), transitions=trans, mismatches=mism, closed=False)
    covered = sum(1 for (rs, nr) in seen if nr[0] != "OUT")
    tags = collections.Counter(nr[0] for (_, nr) in seen)
    return dict(states=len(seen), transitions=trans, mismatches=mism, closed=True, covered=covered, ref_tags=dict(tags), longest_access=max(len(v) for v in seen.values()))
