"""Engine B: explicit-state exploration of the real decoder coroutine, one input byte per transition (DESIGN 5.2).

A state is reached by a byte prefix.  The prefix is fed through a Feed iterator; when the pump asks for the
byte after the prefix, Feed first captures the canonical state of the coroutine stack and then answers
end-of-input, so one run yields the state after the prefix *and* the behaviour on truncation there.
Successors are built by replaying prefix + byte on a fresh generator (live generators cannot be copied).

Canonical state = for the pump and every coroutine on the yield-from chain (co_name, f_lasti, abstracted
locals), paired with the reference decoder's pending-work snapshot.  The one abstraction: a list of BYTE
is represented by its length (nothing in the decoder or the constraints reads an element of a byte
buffer; the contents flow only into events, which are checked on the transition that emits them).
"""
import collections
import sys
import types

from .. import impl, loader

SKIP = ("buffer_iter", "buffer", "field", "error", "none", "_", "root_path", "command_code_path", "byte")


def absv(v, ns):
    if v is None or isinstance(v, (bool, str, bytes)):
        return v
    if v is ...:
        return "..."
    if type(v) is int:
        return v
    if isinstance(v, type):
        return v.__name__
    if isinstance(v, ns.Path):
        return str(v)
    if hasattr(v, "size_already") and hasattr(v, "size_max"):
        return ("SC", str(getattr(v, "constraint_path", None)), v.size_already, None if v.size_max is None else int(v.size_max), getattr(v, "is_obsolete", None))
    if hasattr(v, "_int_size"):
        return (type(v).__name__, int(v))
    if isinstance(v, list):
        if v and all(type(e).__name__ == "BYTE" for e in v):
            return ("bytes", len(v))
        return tuple(absv(e, ns) for e in v)
    if isinstance(v, tuple):
        return tuple(absv(e, ns) for e in v)
    if isinstance(v, dict):
        return tuple((str(k), absv(x, ns)) for k, x in v.items())
    if isinstance(v, ns.MarshalEvent):
        return ("EV", str(v.path), absv(v.type, ns), absv(v.value, ns))
    if isinstance(v, ns.WarningEvent):
        return ("WEV", impl.norm_err(v.error)[0])
    if hasattr(v, "__dataclass_fields__"):
        return (type(v).__name__,) + tuple(absv(getattr(v, f), ns) for f in v.__dataclass_fields__)
    if hasattr(v, "gi_frame"):
        return "<gen>"
    if hasattr(v, "__origin__"):
        return str(v)
    if isinstance(v, Exception):
        return ("EXC", type(v).__name__)
    return ("?", type(v).__name__)


def _is_gen(v):
    return isinstance(v, types.GeneratorType)


def _suspended_chain(g, ns, out, seen):
    """a suspended generator and everything it delegates to (gi_yieldfrom is safe on suspended generators only)"""
    while g is not None and _is_gen(g) and g.gi_frame is not None and id(g) not in seen:
        seen.add(id(g))
        f = g.gi_frame
        loc = tuple(sorted((k, absv(v, ns)) for k, v in f.f_locals.items() if k not in SKIP and not _is_gen(v)))
        out.append((g.gi_code.co_name, f.f_lasti, loc))
        if g.gi_running:
            break
        g = g.gi_yieldfrom


def frames_from_stack(ns, start_depth=2):
    """canonical form of the decoder's coroutine stack, taken from inside the byte source's __next__: the generator
    frames that are *running* are on the Python call stack above us (the pump, and whatever wraps it); the coroutines
    they drive are suspended generators found among their locals, followed through gi_yieldfrom.  No name of a
    function or local of tpmstream is assumed.  Returns None when no decoder coroutine is alive any more."""
    out, seen = [], set()
    f = sys._getframe(start_depth)
    running = []
    # everything between the byte source and the harness is the decoder: generator frames (CO_GENERATOR) are the running
    # coroutines; plain function / method frames in between (e.g. a look-ahead helper object) are passed over
    while f is not None and "/vlib/" not in f.f_code.co_filename.replace("\\", "/"):
        if f.f_code.co_flags & 0x20:
            running.append(f)
        f = f.f_back
    if not running:
        return None
    alive = False
    for fr in reversed(running):  # outermost first
        gens = [v for v in fr.f_locals.values() if _is_gen(v)]
        loc = tuple(sorted((k, absv(v, ns)) for k, v in fr.f_locals.items() if k not in SKIP and not _is_gen(v)))
        out.append((fr.f_code.co_name, fr.f_lasti, loc))
        for gsub in gens:
            if gsub.gi_frame is not None and not gsub.gi_running:
                alive = True
                _suspended_chain(gsub, ns, out, seen)
    return tuple(out) if alive else None


class Feed:
    __slots__ = ("b", "i", "g", "state", "pulled", "ns", "asked")

    def __init__(self, b, ns):
        self.b = bytes(b)
        self.i = 0
        self.g = None
        self.state = None
        self.pulled = 0
        self.ns = ns
        self.asked = 0

    def __iter__(self):
        return self

    def __next__(self):
        if self.i >= len(self.b):
            self.asked += 1
            if self.state is None and self.g is not None and self.g.gi_frame is not None:
                self.state = frames_from_stack(self.ns)
            raise StopIteration
        v = self.b[self.i]
        self.i += 1
        self.pulled += 1
        return v


class StepRun:
    __slots__ = ("state", "events", "kind", "details", "remaining", "pulled", "pulls_at_event", "asked")


def run_prefix(T, prefix, strict, kw):
    ns = loader.load()
    f = Feed(prefix, ns)
    g = ns.Binary.marshal(tpm_type=T, buffer=f, abort_on_error=strict, **kw)
    f.g = g
    r = StepRun()
    r.events, r.pulls_at_event, r.remaining = [], [], None
    limit = 4096 + 64 * len(prefix)
    try:
        for e in g:
            r.events.append(impl.norm_ev(e))
            r.pulls_at_event.append((f.pulled, f.asked))
            if len(r.events) > limit:
                g.close()
                raise RuntimeError("too many events")
        r.kind, r.details = "Done", {}
    except Exception as e:  # noqa: BLE001
        r.kind, r.details = impl.norm_err(e)
        if isinstance(e, ns.err.ConstraintViolatedError) and e.bytes_remaining is not None:
            try:
                str(e), repr(e)  # a user prints the diagnosis first; that must not change what the error carries
                r.remaining = bytes(e.bytes_remaining)
            except Exception as e2:  # noqa: BLE001
                r.remaining = "ESCAPE:" + type(e2).__name__
    r.state, r.pulled, r.asked = f.state, f.pulled, f.asked
    return r


def explore(T, kw, strict, alphabet_of, ref_of, on_transition, max_depth, max_states=400000):
    """breadth-first search.  alphabet_of(prefix, ref_result) -> iterable of byte values; ref_of(prefix) -> reference
    result (must carry .snapshot for live prefixes).  on_transition(prefix, run, ref, parent_run).
    Returns dict(states, transitions, max_depth, closed, terminal outcomes)."""
    seen = {}
    frontier = collections.deque()
    r0 = run_prefix(T, b"", strict, kw)
    ref0 = ref_of(b"")
    on_transition(b"", r0, ref0, None)
    trans = 0
    outcomes = collections.Counter()
    capped_depth = 0
    deepest = 0
    if r0.state is not None:
        seen[(r0.state, ref0.snapshot)] = b""
        frontier.append((b"", r0, ref0))
    while frontier:
        p, rp, refp = frontier.popleft()
        deepest = max(deepest, len(p))
        if len(p) >= max_depth:
            capped_depth += 1
            continue
        for a in alphabet_of(p, refp):
            q = p + bytes([a])
            trans += 1
            r = run_prefix(T, q, strict, kw)
            ref = ref_of(q)
            on_transition(q, r, ref, rp)
            if r.state is None:
                outcomes[r.kind if not r.kind.startswith("ESCAPE") else "ESCAPE"] += 1
                continue
            key = (r.state, ref.snapshot)
            if key not in seen:
                seen[key] = q
                frontier.append((q, r, ref))
                if len(seen) >= max_states:
                    return dict(states=len(seen), transitions=trans, max_depth=deepest, closed=False, cap="states", outcomes=dict(outcomes))
    return dict(states=len(seen), transitions=trans, max_depth=deepest, closed=capped_depth == 0, cap="depth" if capped_depth else None, frontier_at_cap=capped_depth, outcomes=dict(outcomes))
