"""./check <Cnn> [--tier quick|thorough] [--replay file]

A property module (vlib/props/cNN.py) provides

    LEVEL = "model_checking" | "fault_enumeration" | "exploration"
    def units(tier, seed) -> list of picklable work units
    def run_unit(unit) -> Acc            (executed in a pool worker)
    def finish(acc, tier, seed) -> dict  (extra coverage keys; may add sanity violations to acc)
    def replay(case) -> list of (fp, case, detail)   re-run one recorded case without exploration

The runner owns the pool, the merging, the matching against known_findings.json,
the evidence file and the exit status.
"""
import argparse
import collections
import hashlib
import importlib
import json
import multiprocessing
import os
import signal
import subprocess
import sys
import time
import traceback

ROOT = os.path.dirname(os.path.dirname(os.path.abspath(__file__)))
# evidence/ and violations/ normally live in /verif; VERIF_OUT redirects them (parallel evaluation of changed trees)
OUT = os.environ.get("VERIF_OUT") or ROOT
UNIT_TIMEOUT = int(os.environ.get("VERIF_UNIT_TIMEOUT", "1800"))


def h64(obj):
    return hashlib.blake2b(repr(obj).encode(), digest_size=8).digest()


class Acc:
    """accumulator of one work unit / of the whole run"""

    def __init__(self):
        self.n = collections.Counter()
        self.shapes = set()
        self.viol = {}
        self.samples = []
        self.maxes = {}
        self.notes = []

    def count(self, key, k=1):
        self.n[key] += k

    def shape(self, obj):
        self.shapes.add(h64(obj))

    def mx(self, key, v):
        if v > self.maxes.get(key, float("-inf")):
            self.maxes[key] = v

    def sample(self, x, cap=3):
        if len(self.samples) < cap:
            self.samples.append(x)

    def violation(self, fp, case, detail, size=None):
        """fp: fingerprint dict (property-independent keys); case: replayable description"""
        key = json.dumps(fp, sort_keys=True, default=str)
        if size is None:
            size = len(json.dumps(case, sort_keys=True, default=str))
        old = self.viol.get(key)
        if old is None or size < old["size"]:
            self.viol[key] = {"fp": fp, "case": case, "detail": detail, "size": size, "n": (old["n"] if old else 0) + 1}
        else:
            old["n"] += 1

    def merge(self, o):
        self.n.update(o.n)
        self.shapes |= o.shapes
        for k, v in o.viol.items():
            old = self.viol.get(k)
            if old is None:
                self.viol[k] = v
            else:
                n = old["n"] + v["n"]
                if v["size"] < old["size"]:
                    self.viol[k] = v
                self.viol[k]["n"] = n
        for s in o.samples:
            self.sample(s, cap=6)
        for k, v in o.maxes.items():
            self.mx(k, v)
        self.notes += o.notes


class UnitTimeout(BaseException):
    """not an Exception: harness code that catches Exception around the implementation must not swallow it"""


def _alarm(signum, frame):
    raise UnitTimeout()


def _worker(args):
    modname, unit = args
    mod = importlib.import_module(modname)
    signal.signal(signal.SIGALRM, _alarm)
    signal.alarm(UNIT_TIMEOUT * (3 if os.environ.get("VERIF_TIER_ACTIVE") == "thorough" else 1))
    t0 = time.time()
    try:
        acc = mod.run_unit(unit)
    except UnitTimeout:
        acc = Acc()
        acc.violation(
            {"clause": "work-unit-timeout", "unit": _unit_label(unit)},
            {"harness": "unit", "unit": unit},
            f"work unit did not finish within {UNIT_TIMEOUT}s (cap; reported as a failure, never as a pass)",
        )
    except Exception as e:  # noqa: BLE001 - harness or import failure
        acc = Acc()
        from . import loader

        clause = "import-failure" if isinstance(e, loader.ImportFailure) else "harness-error"
        acc.violation(
            {"clause": clause, "exc": type(e).__name__, "unit": _unit_label(unit) if clause != "import-failure" else "*"},
            {"harness": "unit", "unit": unit},
            "".join(traceback.format_exception(type(e), e, e.__traceback__)[-8:]),
        )
    finally:
        signal.alarm(0)
    acc.maxes["unit_wall_s"] = max(acc.maxes.get("unit_wall_s", 0), time.time() - t0)
    return acc


def _unit_label(unit):
    if isinstance(unit, dict):
        return str(unit.get("label", unit.get("kind", "?")))
    return str(unit)[:60]


def load_findings():
    p = os.path.join(ROOT, "known_findings.json")
    if not os.path.exists(p):
        return []
    with open(p) as f:
        return json.load(f).get("findings", [])


def match_finding(prop, fp, findings):
    for f in findings:
        if f.get("property") != prop or "match" not in f:
            continue
        if all(str(fp.get(k)) == str(v) for k, v in f["match"].items()):
            return f
    return None


def write_evidence(prop, ev):
    path = os.path.join(OUT, "evidence", f"{prop}.json")
    os.makedirs(os.path.dirname(path), exist_ok=True)
    tmp = path + ".tmp"
    with open(tmp, "w") as f:
        json.dump(ev, f, indent=1, sort_keys=True, default=str)
    os.replace(tmp, path)
    # validate against the schema when the tooling interpreter is present (not fatal if it is not)
    schema = "/root/.vp/EVIDENCE.schema.json"
    if os.path.exists(schema) and os.path.exists("/usr/local/bin/python3-vt"):
        code = (
            "import json,sys,jsonschema;"
            "jsonschema.validate(json.load(open(sys.argv[1])),json.load(open(sys.argv[2])))"
        )
        r = subprocess.run(["/usr/local/bin/python3-vt", "-c", code, path, schema], capture_output=True, text=True)
        if r.returncode != 0:
            print("EVIDENCE-INVALID", r.stderr.strip().splitlines()[-1:] if r.stderr else "")
            return False
    return True


def main(argv=None):
    ap = argparse.ArgumentParser()
    ap.add_argument("prop")
    ap.add_argument("--tier", default=os.environ.get("VERIF_TIER", "quick"), choices=["quick", "thorough"])
    ap.add_argument("--replay")
    ap.add_argument("--jobs", type=int, default=int(os.environ.get("VERIF_JOBS", "16")))
    a = ap.parse_args(argv)
    prop = a.prop.upper()
    seed = int(os.environ.get("VERIF_SEED", "0") or 0)
    modname = f"vlib.props.{prop.lower()}"
    t0 = time.time()
    mod = importlib.import_module(modname)

    if a.replay:
        with open(a.replay) as f:
            art = json.load(f)
        from . import loader

        try:
            loader.load()
            res = mod.replay(art["case"])
        except Exception as e:  # noqa: BLE001
            res = [({"clause": "replay-error", "exc": type(e).__name__}, art["case"], traceback.format_exc())]
        if res:
            for fp, case, detail in res:
                print("STILL FAILS:", json.dumps(fp, sort_keys=True, default=str))
                print(detail)
            print(f"VIOLATION property={prop} replay={a.replay}")
            return 1
        print("replay: case no longer violates the property")
        return 0

    os.environ["VERIF_TIER_ACTIVE"] = a.tier
    acc = Acc()
    try:
        from . import loader

        loader.load()  # a tree that cannot be imported satisfies nothing
        units = mod.units(a.tier, seed)
    except Exception as e:  # noqa: BLE001
        from . import loader

        clause = "import-failure" if isinstance(e, loader.ImportFailure) else "harness-error"
        acc.violation({"clause": clause, "exc": type(e).__name__, "unit": "*"}, {"harness": "units"}, "".join(traceback.format_exception(type(e), e, e.__traceback__)[-8:]))
        units = []
    jobs = max(1, min(a.jobs, len(units) or 1))
    order = list(range(len(units)))
    # the seed only rotates the dispatch order (and representatives inside the harness)
    order = order[seed % max(1, len(order)):] + order[: seed % max(1, len(order))]
    if jobs == 1:
        for i in order:
            acc.merge(_worker((modname, units[i])))
    else:
        ctx = multiprocessing.get_context("fork")
        with ctx.Pool(jobs, maxtasksperchild=int(os.environ.get("VERIF_TASKS_PER_CHILD", "64"))) as pool:
            stop_first = os.environ.get("VERIF_STOP_AT_FIRST") == "1"  # evaluation of changed trees only: first report is enough
            fnd = load_findings() if stop_first else None
            progress, done = os.environ.get("VERIF_PROGRESS") == "1", 0
            for r in pool.imap_unordered(_worker, [(modname, units[i]) for i in order], chunksize=1):
                acc.merge(r)
                done += 1
                if progress and done % 50 == 0:
                    print(f"progress {done}/{len(units)} units {time.time() - t0:.0f}s", file=sys.stderr, flush=True)
                if stop_first and any(match_finding(prop, v["fp"], fnd) is None for v in acc.viol.values()):
                    acc.notes.append("stopped at the first violation (VERIF_STOP_AT_FIRST=1): coverage figures are partial")
                    pool.terminate()
                    break
    extra = {}
    try:
        extra = mod.finish(acc, a.tier, seed) or {}
    except Exception as e:  # noqa: BLE001
        acc.violation({"clause": "harness-error", "exc": type(e).__name__, "unit": "finish"}, {"harness": "finish"}, traceback.format_exc())

    if acc.n.get("b_scopes"):
        from . import bscope

        extra["engine_b"] = bscope.coverage(acc)
    findings = load_findings()
    known, fresh = [], []
    for key in sorted(acc.viol):
        v = acc.viol[key]
        f = match_finding(prop, v["fp"], findings)
        (known if f else fresh).append((v, f))
    vdir = os.path.join(OUT, "violations", prop)
    lines = []
    seen_ids = set()
    for v, f in known:
        if f["id"] in seen_ids:
            continue
        seen_ids.add(f["id"])
        lines.append(f"KNOWN-FINDING: property={prop} {f['id']}: {f['what']}")
    for v, _ in fresh:
        os.makedirs(vdir, exist_ok=True)
        hid = hashlib.sha1(json.dumps(v["fp"], sort_keys=True, default=str).encode()).hexdigest()[:12]
        path = os.path.join(vdir, hid + ".json")
        with open(path, "w") as fh:
            json.dump({"property": prop, "fingerprint": v["fp"], "case": v["case"], "detail": v["detail"], "occurrences": v["n"]}, fh, indent=1, sort_keys=True, default=str)
        lines.append(f"VIOLATION property={prop} replay={os.path.relpath(path, OUT)}")
        lines.append("  " + json.dumps(v["fp"], sort_keys=True, default=str)[:300])
        lines.append("  " + str(v["detail"]).strip().replace("\n", "\n  ")[:600])

    wall = time.time() - t0
    cov = dict(extra)
    cov.setdefault("samples", acc.samples[:6] or ["<none>"])
    cov["counters"] = {str(k): v for k, v in sorted(acc.n.items(), key=lambda kv: str(kv[0]))}
    cov["maxima"] = {k: (round(v, 3) if isinstance(v, float) else v) for k, v in acc.maxes.items()}
    cov["work_units"] = len(units)
    cov["known_findings_seen"] = sorted(seen_ids)
    cov["notes"] = acc.notes[:20]
    ev = {
        "property_id": prop,
        "tier": a.tier,
        "seed": seed,
        "level": mod.LEVEL,
        "coverage": cov,
        "assumptions": getattr(mod, "ASSUMPTIONS", []),
        "wall_s": round(wall, 2),
        "violations": len(fresh),
    }
    ok = write_evidence(prop, ev)
    for line in lines:
        print(line)
    summ = {k: cov.get(k) for k in ("states", "transitions", "traces_validated_against_impl", "evaluations", "distinct_nontrivial", "exhaustive") if k in cov}
    print(f"{prop} tier={a.tier} seed={seed} units={len(units)} {summ} known={len(seen_ids)} violations={len(fresh)} wall={wall:.1f}s")
    return 1 if fresh or not ok else 0


if __name__ == "__main__":
    sys.exit(main())
