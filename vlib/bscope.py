"""Scopes of engine B (DESIGN 5.2) and the per-transition oracles shared by C03 C05 C06 C07 C08 C10 C13."""
from . import impl, loader, oracle, snapshot
from .engines import bytestep
from .ref import tiling
from .ref import values as V
from .ref.decode import decode as ref_decode

_syn = {}


def synthetic():
    """synthetic nested types declared with the repository's own decorators, and injected into the reference
    decoder's (in-memory) layout"""
    if _syn:
        return _syn
    ns = loader.load()
    from tpmstream.spec.common.values import tpm_dataclass, tpm_enum
    from tpmstream.spec.structures.base_types import BYTE, UINT8

    @tpm_enum
    class SYN_SEL(UINT8):
        A = 1
        B = 2
        N = 3

    @tpm_dataclass
    class TPM2B_SYN_IN:
        size: UINT8
        buffer: list[BYTE]

    @tpm_dataclass
    class TPMS_SYN:
        a: TPM2B_SYN_IN
        b: TPM2B_SYN_IN

    @tpm_dataclass
    class TPM2B_SYN_OUT:
        size: UINT8
        s: TPMS_SYN

    @tpm_dataclass
    class TPML_SYN:
        count: UINT8
        items: list[TPM2B_SYN_IN]

    @tpm_dataclass
    class TPM2B_SYN_DEEP:
        size: UINT8
        d: TPM2B_SYN_OUT

    @tpm_dataclass
    class TPMU_SYN:
        _selected_by = {"a": SYN_SEL.A, "b": SYN_SEL.B, "n": SYN_SEL.N}
        a: TPM2B_SYN_IN
        b: UINT8
        n: None

    @tpm_dataclass
    class TPMT_SYN:
        _selectors = {"u": "sel"}
        sel: SYN_SEL
        u: TPMU_SYN
        tail: UINT8

    @tpm_dataclass
    class TPM2B_SYN_T:
        size: UINT8
        t: TPMT_SYN

    types = [TPM2B_SYN_IN, TPMS_SYN, TPM2B_SYN_OUT, TPML_SYN, TPM2B_SYN_DEEP, TPMU_SYN, TPMT_SYN, TPM2B_SYN_T]
    P, S = V.P(), V.S()
    # reference layout entries (written by hand, like a pin)
    P["SYN_SEL"] = {"size": 1, "signed": False, "kind": "enum", "mro": ["SYN_SEL", "UINT8"], "members": [["A", 1], ["B", 2], ["N", 3]],
                    "valid": [{"lo": 1, "hi": 1, "name": "A", "owner": "SYN_SEL", "range": False}, {"lo": 2, "hi": 2, "name": "B", "owner": "SYN_SEL", "range": False}, {"lo": 3, "hi": 3, "name": "N", "owner": "SYN_SEL", "range": False}]}
    S["TPM2B_SYN_IN"] = {"kind": "tpm2b", "fields": [["size", "UINT8"], ["buffer", {"list": "BYTE"}]]}
    S["TPMS_SYN"] = {"kind": "struct", "fields": [["a", "TPM2B_SYN_IN"], ["b", "TPM2B_SYN_IN"]]}
    S["TPM2B_SYN_OUT"] = {"kind": "tpm2b", "fields": [["size", "UINT8"], ["s", "TPMS_SYN"]]}
    S["TPML_SYN"] = {"kind": "struct", "fields": [["count", "UINT8"], ["items", {"list": "TPM2B_SYN_IN"}]]}
    S["TPM2B_SYN_DEEP"] = {"kind": "tpm2b", "fields": [["size", "UINT8"], ["d", "TPM2B_SYN_OUT"]]}
    S["TPMU_SYN"] = {"kind": "union", "fields": [["a", "TPM2B_SYN_IN"], ["b", "UINT8"], ["n", None]], "selected_by": [["a", 1], ["b", 2], ["n", 3]]}
    S["TPMT_SYN"] = {"kind": "struct", "fields": [["sel", "SYN_SEL"], ["u", "TPMU_SYN"], ["tail", "UINT8"]], "selectors": [["u", "sel"]]}
    S["TPM2B_SYN_T"] = {"kind": "tpm2b", "fields": [["size", "UINT8"], ["t", "TPMT_SYN"]]}
    V.intervals.cache_clear()
    V.domain.cache_clear()
    V.outside.cache_clear()
    for t in types + [SYN_SEL]:
        ns.TYPES[t.__name__] = t
        _syn[t.__name__] = t
    return _syn


# ---- scopes: name -> dict(root, cc, enc, kind 'synthetic'|'real', alphabet, depth per tier, overrides)


def scopes(tier):
    q = tier == "quick"
    cc = {k: v["cc"] for k, v in V.C().items()}
    frame_sizes = [0, 9, 10, 11, 12, 13, 14, 0xFFFFFFFF]
    out = [
        dict(name="syn:TPM2B_SYN_OUT", root="TPM2B_SYN_OUT", synthetic=True, m=4 if q else 6, depth=16),
        dict(name="syn:TPMS_SYN", root="TPMS_SYN", synthetic=True, m=3 if q else 5, depth=16),
        dict(name="syn:TPML_SYN", root="TPML_SYN", synthetic=True, m=3 if q else 4, depth=16 if q else 24),
        dict(name="syn:TPM2B_SYN_DEEP", root="TPM2B_SYN_DEEP", synthetic=True, m=3 if q else 5, depth=16),
        dict(name="syn:TPM2B_SYN_T", root="TPM2B_SYN_T", synthetic=True, m=4 if q else 6, depth=12),
        dict(name="real:TPM2B_DIGEST", root="TPM2B_DIGEST", depth=8 if q else 12),
        dict(name="real:TPM2B_ECC_POINT", root="TPM2B_ECC_POINT", depth=10 if q else 14),
        dict(name="real:TPMT_HA", root="TPMT_HA", depth=6 if q else 8, values={".hashAlg": [0x0004, 0x000B, 0x0010, 0x0001]}, fixed_arm_bytes=3),
        dict(name="real:TPMT_SYM_DEF", root="TPMT_SYM_DEF", depth=8),
        dict(name="real:TPML_DIGEST", root="TPML_DIGEST", depth=10 if q else 14, values={".count": [0, 1, 2, 0xFFFFFFFF]}),
        dict(name="real:Command", root="Command", depth=16 if q else 22, values={".commandCode": [cc["Startup"], cc["GetRandom"], cc["StirRandom"], 0x11E], ".commandSize": frame_sizes + [15, 16, 27], ".authSize": [0, 8, 9, 10, 0xFFFFFFFF]}),
        dict(name="real:Response(GetRandom)", root="Response", cc=cc["GetRandom"], depth=16 if q else 22, values={".responseSize": frame_sizes + [16, 17], ".responseCode": [0, 0x101], ".parameterSize": [0, 2, 3, 4, 0xFFFFFFFF]}),
        dict(name="real:Response(Startup)", root="Response", cc=cc["Startup"], depth=14 if q else 20, values={".responseSize": frame_sizes, ".responseCode": [0, 0x101, 0x922], ".parameterSize": [0, 1, 0xFFFFFFFF]}),
        dict(name="real:Stream", root="CommandResponseStream", depth=14 if q else 24, values={".commandCode": [cc["Startup"], cc["GetRandom"]], ".commandSize": [0, 10, 12, 13], ".responseSize": [0, 10, 11, 12, 16], ".responseCode": [0, 0x101], ".authSize": [0, 9], ".parameterSize": [0, 4]}),
    ]
    return out


SESSION_ATTRS = (0x00, 0x20, 0x40, 0x81)


def candidate_values(scope, path, tn, role):
    """the values a pending field may take in this scope (the byte alphabet is derived from them)"""
    pshape = oracle.path_shape(path)
    for key, vals in (scope.get("values") or {}).items():
        if pshape.endswith(key):
            return list(vals)
    p = V.P()[tn]
    lo, hi = V.limits(tn)
    if role in ("size", "count"):
        return [0, 1, 2, 3, hi]
    if tn == "TPMA_SESSION":
        return list(SESSION_ATTRS)
    if V.is_constrained(tn):
        dom = list(V.domain(tn))
        out = dom if len(dom) <= 12 else dom[:6] + dom[-2:]
        bad = V.outside(tn)
        return out + list(bad[:1])
    if tn == "BYTE":
        return [0xA5]
    return [0, hi] if p["size"] > 1 else [0xA5]


def alphabet_for(scope):
    if scope.get("synthetic"):
        m = scope["m"]
        return lambda prefix, ref: range(m + 1)

    def alpha(prefix, ref):
        snap = ref.snapshot
        if snap is None:
            # the reference is done with this prefix (error or complete value) but the implementation still asks for
            # input - already a disagreement; follow it with one filler byte so that what it leads to is seen as well
            return (0,)
        what, partial = snap[2], snap[3]
        if what is None:
            return (0,)
        if what[0] == "skip":
            return (0xEE,)  # bytes skipped to the end of an overrun region: one value
        _, path, tn, role = what
        k = len(partial)
        out = []
        for v in candidate_values(scope, path, tn, role):
            try:
                enc = V.enc_int(tn, v)
            except OverflowError:
                continue
            if enc[:k] == partial and enc[k] not in out:
                out.append(enc[k])
        return out or (0,)

    return alpha


# ---- per-transition oracles


def strict_problems(root, q, cc, enc, r, ref, parent):
    """r: bytestep.StepRun (strict), ref: reference result for q.  -> list of problem dicts (clause, detail, ...)"""
    probs = []
    rk = ref.kind
    if r.kind.startswith("ESCAPE"):
        probs.append(dict(clause="outside-escape" if rk in oracle.OUTSIDE else "escape", exc=r.kind, where=r.details.get("where"), expected=rk, **({"requested": oracle.enc_context(r.events, root, enc)["requested"]} if r.details.get("where") in ("encrypted", "process_response") else {}), detail=f"strict decoding raised {r.kind} in {r.details.get('where')}: {r.details.get('msg')}; reference {rk}"))
        return probs
    if rk in oracle.OUTSIDE:
        return probs
    if r.kind != rk:
        probs.append(dict(clause="outcome", expected=rk, observed=r.kind, detail=f"expected {rk} {ref.details}, observed {r.kind} {r.details}"))
    elif r.details != ref.details:
        keys = sorted(k for k in set(r.details) | set(ref.details) if r.details.get(k) != ref.details.get(k))
        probs.append(dict(clause="details", kind=rk, keys=",".join(keys), detail=f"{rk}: " + "; ".join(f"{k}: expected {ref.details.get(k)!r}, observed {r.details.get(k)!r}" for k in keys)))
    if r.events != ref.events:
        i, got, want = oracle.first_diff(r.events, ref.events)
        probs.append(dict(clause="events", kind=rk, detail=f"outcome {rk}: event {i} is {got}, expected {want}"))
    if r.kind == rk and rk in ("Value", "Anticipated", "Exceeded", "Subceeded"):
        want = q[ref.pos :]
        if r.remaining != want:
            probs.append(dict(clause="remaining", kind=rk, detail=f"{rk}: bytes_remaining {r.remaining!r}, expected {want!r}"))
    if r.pulled > len(q):
        probs.append(dict(clause="pulled", detail=f"pulled {r.pulled} > {len(q)}"))
    # look-ahead: at every event at most one byte beyond the fields emitted so far
    off = 0
    for e, (pulled, asked) in zip(r.events, r.pulls_at_event):
        if e[0] == "E" and e[3] != "..." and e[2] in V.P():
            off += V.width(e[2])
        la = pulled - off
        if la > 1 or la < 0 or (la == 0 and asked == 0 and pulled > 0):
            if rk in ("Done", "Depleted") and la != 0 or la > 1:
                probs.append(dict(clause="look-ahead", ahead=max(-1, min(la, 3)), detail=f"at event {e[:3]}: {pulled} bytes pulled, {off} in emitted fields"))
                break
    # prefix stability: what was emitted for the parent prefix is a prefix of what is emitted now
    if parent is not None and not parent.kind.startswith("ESCAPE") and not r.kind.startswith("ESCAPE"):
        pe = parent.events
        if r.events[: len(pe)] != pe:
            probs.append(dict(clause="prefix-stability", detail=f"events of the parent prefix are not a prefix: {oracle.first_diff(r.events[:len(pe)], pe)}"))
    return probs


def warn_problems(root, q, cc, enc, w, s):
    """w: warn-mode StepRun, s: strict StepRun of the same prefix"""
    from .props.c08 import allowed_escape
    from .props.c07 import relation

    probs = []
    esc = None if w.kind == "Done" else w.kind
    ok = esc is not None and allowed_escape(w)
    if esc is not None and not ok:
        probs.append(dict(prop="C08", clause="aborts", exc=esc, where=w.details.get("where") if esc.startswith("ESCAPE") else None, detail=f"warn-mode decoding aborted with {esc}: {w.details}"))
    for clause, detail in tiling.tile(q, w.events, esc, escape_allowed=True):
        probs.append(dict(prop="C08", clause="tiling:" + clause, detail=detail))
    if not s.kind.startswith("ESCAPE"):
        for clause, extra, detail in relation(s, w):
            probs.append(dict(prop="C07", clause=clause, detail=detail, **extra))
    return probs


def run_scope(scope, tier, acc, strict_own=(), warn_props=(), prop=None):
    """explores one scope; violations of the owned clauses are recorded in acc"""
    ns = loader.load()
    synthetic()
    T = ns.TYPES[scope["root"]]
    kw = {}
    if scope.get("cc") is not None:
        kw["command_code"] = ns.CC[scope["cc"]]
    if scope.get("enc"):
        kw["parameter_encryption"] = True
    root, cc, enc = scope["root"], scope.get("cc"), scope.get("enc")
    alpha = alphabet_for(scope)
    stats = {}

    def ref_of(q):
        return ref_decode(root, q, cc=cc, enc=enc)

    def case(q, mode):
        return {"harness": "bytestep", "scope": scope["name"], "root": root, "cc": cc, "enc": bool(enc), "input": q.hex(), "mode": mode}

    def on_transition(q, r, ref, parent):
        loader.cache_clear()
        acc.count("evaluations")
        acc.count("b_outcome:" + (r.kind if not r.kind.startswith("ESCAPE") else "ESCAPE"))
        if strict_own:
            for p in strict_problems(root, q, cc, enc, r, ref, parent):
                if p["clause"] in strict_own:
                    acc.violation(dict(oracle.fp_of(p), engine="B", root=oracle.rootclass(root) if not scope.get("synthetic") else "synthetic"), case(q, "strict"), p["detail"], size=len(q))
        if warn_props:
            w = bytestep.run_prefix(T, q, False, kw)
            acc.count("evaluations")
            for p in warn_problems(root, q, cc, enc, w, r):
                if p["prop"] in warn_props:
                    fp = {k: v for k, v in p.items() if k not in ("detail", "prop")}
                    acc.violation(dict(fp, engine="B", root=oracle.rootclass(root) if not scope.get("synthetic") else "synthetic"), case(q, "warn"), p["detail"], size=len(q))

    st = bytestep.explore(T, kw, True, alpha, ref_of, on_transition, scope["depth"])
    acc.count("states", st["states"])
    acc.count("transitions", st["transitions"])
    acc.count("b_scopes")
    acc.count("b_scopes_closed" if st["closed"] else "b_scopes_depth_bounded")
    acc.mx("b_max_depth", st["max_depth"])
    acc.shape(("scope", scope["name"], st["states"], st["transitions"]))
    for k, v in st["outcomes"].items():
        acc.count("b_terminal:" + k, v)
    acc.sample({"scope": scope["name"], "states": st["states"], "transitions": st["transitions"], "closed": st["closed"], "cap": st.get("cap"), "max_depth": st["max_depth"], "terminal_outcomes": st["outcomes"]}, cap=20)
    return st


def units(tier, seed, only=None):
    return [{"kind": "bscope", "scope": sc["name"], "label": "B:" + sc["name"], "tier": tier, "seed": seed} for sc in scopes(tier) if only is None or only(sc)]


def run_b_unit(unit, strict_own=(), warn_props=()):
    from .runner import Acc

    acc = Acc()
    loader.load()
    synthetic()
    sc = next(s for s in scopes(unit["tier"]) if s["name"] == unit["scope"])
    run_scope(sc, unit["tier"], acc, strict_own=strict_own, warn_props=warn_props)
    return acc


def coverage(acc):
    return {
        "scopes": acc.n["b_scopes"],
        "scopes_closed": acc.n["b_scopes_closed"],
        "scopes_depth_bounded": acc.n["b_scopes_depth_bounded"],
        "states": acc.n["states"],
        "transitions": acc.n["transitions"],
        "max_depth": acc.maxes.get("b_max_depth"),
        "outcomes_on_transitions": {k[10:]: v for k, v in acc.n.items() if str(k).startswith("b_outcome:")},
    }


def replay(case, strict_own=(), warn_props=()):
    """re-run one recorded prefix (and its parent, for prefix stability) against the oracles"""
    from .runner import Acc

    acc = Acc()
    ns = loader.load()
    synthetic()
    root, cc, enc = case["root"], case.get("cc"), case.get("enc")
    T = ns.TYPES[root]
    kw = {}
    if cc is not None:
        kw["command_code"] = ns.CC[cc]
    if enc:
        kw["parameter_encryption"] = True
    q = bytes.fromhex(case["input"])
    r = bytestep.run_prefix(T, q, True, kw)
    parent = bytestep.run_prefix(T, q[:-1], True, kw) if q else None
    ref = ref_decode(root, q, cc=cc, enc=enc)
    out = []
    for p in strict_problems(root, q, cc, enc, r, ref, parent):
        if p["clause"] in strict_own:
            out.append((oracle.fp_of(p), case, p["detail"]))
    if warn_props:
        w = bytestep.run_prefix(T, q, False, kw)
        for p in warn_problems(root, q, cc, enc, w, r):
            if p["prop"] in warn_props:
                out.append(({k: v for k, v in p.items() if k not in ("detail", "prop")}, case, p["detail"]))
    return out
