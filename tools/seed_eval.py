#!/venv/bin/python
"""Evaluate one seeded change:  tools/seed_eval.py <dir with patch.diff, demo.py> [--checks C03,C13] [--tier quick] [--skip-suite]

1. in a scratch worktree of /repo HEAD (under /tmp, removed afterwards): the demo passes on the unchanged tree,
   fails with the patch applied, and the repository's own suite still passes with the patch;
2. the patch is applied to /repo itself (git apply), the named checks are run, and /repo is restored (git checkout -- .).
Prints one JSON summary and writes it to <dir>/eval.json.
"""
import argparse
import json
import os
import re
import subprocess
import sys
import time

VERIF = os.path.dirname(os.path.dirname(os.path.abspath(__file__)))


def sh(cmd, cwd=None, env=None, timeout=3600):
    r = subprocess.run(cmd, shell=True, cwd=cwd, env=env, capture_output=True, text=True, timeout=timeout)
    return r.returncode, r.stdout + r.stderr


def main():
    ap = argparse.ArgumentParser()
    ap.add_argument("dir")
    ap.add_argument("--checks", default="")
    ap.add_argument("--tier", default="quick")
    ap.add_argument("--skip-suite", action="store_true")
    ap.add_argument("--seeds", default="0")
    a = ap.parse_args()
    d = os.path.abspath(a.dir)
    patch = os.path.join(d, "patch.diff")
    demo = os.path.join(d, "demo.py")
    res = {"dir": d, "checks": {}}
    old = {}
    if os.path.exists(os.path.join(d, "eval.json")):
        try:
            old = json.load(open(os.path.join(d, "eval.json")))
        except Exception:  # noqa: BLE001
            old = {}
    rc, out = sh("git -C /repo status --porcelain")
    if out.strip():
        print("refusing: /repo has uncommitted changes:\n" + out)
        return 2
    wt = f"/tmp/wt_eval_{os.getpid()}"
    sh(f"git -C /repo worktree add -q --detach {wt} HEAD")
    try:
        env = dict(os.environ, PYTHONPATH=f"{wt}/src", PYTHONDONTWRITEBYTECODE="1")
        if os.path.exists(demo):
            rc0, o0 = sh(f"/venv/bin/python {demo}", cwd=wt, env=env, timeout=900)
            res["demo_unchanged"] = {"exit": rc0, "tail": o0.strip()[-200:]}
        rc, o = sh(f"git -C {wt} apply {patch}")
        if rc != 0:
            rc, o = sh(f"git -C {wt} apply --3way {patch}")  # the base commit of the patch is older than HEAD
            res["applied_with_3way"] = rc == 0
        res["applies"] = rc == 0
        if rc != 0:
            res["apply_error"] = o[-300:]
        else:
            if os.path.exists(demo):
                rc1, o1 = sh(f"/venv/bin/python {demo}", cwd=wt, env=env, timeout=900)
                res["demo_patched"] = {"exit": rc1, "tail": o1.strip()[-300:]}
            if not a.skip_suite:
                rc, o = sh("/venv/bin/python -m pytest -q -p no:cacheprovider --timeout=900 -n 16 2>&1 | tail -3", cwd=wt, env=env)
                m = re.search(r"(\d+) passed", o)
                f = re.search(r"(\d+) failed", o)
                res["suite"] = {"passed": int(m.group(1)) if m else None, "failed": int(f.group(1)) if f else 0, "tail": o.strip().splitlines()[-1] if o.strip() else ""}
    finally:
        sh(f"git -C /repo worktree remove --force {wt}")
    if res.get("applies") and a.checks:
        rc, o = sh(f"git -C /repo apply {patch}")
        if rc != 0:
            rc, o = sh(f"git -C /repo apply --3way {patch}")
            sh("git -C /repo reset -q")  # --3way stages the result; keep it in the working tree only
        try:
            for c in a.checks.split(","):
                for seed in a.seeds.split(","):
                    t0 = time.time()
                    rc, o = sh(f"VERIF_SEED={seed} ./check {c} --tier {a.tier}", cwd=VERIF, timeout=7200)
                    viol = [l for l in o.splitlines() if l.startswith("VIOLATION")]
                    first = ""
                    lines = o.splitlines()
                    for i, l in enumerate(lines):
                        if l.startswith("VIOLATION"):
                            first = " | ".join(x.strip() for x in lines[i + 1 : i + 3])[:400]
                            break
                    res["checks"][f"{c}@{seed}"] = {"exit": rc, "violations": len(viol), "first": first, "wall_s": round(time.time() - t0, 1)}
        finally:
            sh("git -C /repo checkout -- .")
            rc, o = sh("git -C /repo status --porcelain")
            if o.strip():
                res["repo_not_clean"] = o
    if a.skip_suite and old.get("suite"):
        res["suite"] = old["suite"]  # confirmed by an earlier evaluation of the same patch
    res["first_run_checks"] = old.get("first_run_checks") or old.get("checks")
    res["detected_by"] = sorted({k.split("@")[0] for k, v in res["checks"].items() if v["violations"]})
    with open(os.path.join(d, "eval.json"), "w") as f:
        json.dump(res, f, indent=1)
    print(json.dumps(res, indent=1))
    return 0


if __name__ == "__main__":
    sys.exit(main())
