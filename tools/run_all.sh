#!/bin/bash
# tools/run_all.sh [tier] [seed]   runs every registered check once and prints its summary line
cd "$(dirname "$0")/.."
tier="${1:-quick}"; seed="${2:-0}"
for c in C01 C02 C03 C04 C05 C06 C07 C08 C09 C10 C11 C12 C13 C14 C15 C16 C17 C18 C19 C20; do
  out=$(VERIF_SEED=$seed ./check $c --tier $tier 2>&1); rc=$?
  echo "$out" | grep -E "^(VIOLATION|EVIDENCE-INVALID)" | head -5
  echo "rc=$rc $(echo "$out" | tail -1 | cut -c1-220)"
done
