#!/venv/bin/python
"""tools/estimate_tier.py <Cxx> [tier]   rough wall-time estimate of a tier on 16 cores: runs one work unit of every
(kind, variant) for a small and a large command and extrapolates by the number of units (timing aid only; decides nothing)"""
import collections, importlib, multiprocessing, os, sys, time
sys.path.insert(0, os.path.dirname(os.path.dirname(os.path.abspath(__file__))))
os.environ.setdefault("PYTHONHASHSEED", "0"); os.environ["TPMSTREAM_VERIF"] = "1"
prop, tier = sys.argv[1].lower(), (sys.argv[2] if len(sys.argv) > 2 else "thorough")
os.environ["VERIF_TIER_ACTIVE"] = tier
mod = importlib.import_module(f"vlib.props.{prop}")

def one(u):
    t = time.time(); mod.run_unit(u); return time.time() - t

if __name__ == "__main__":
    us = mod.units(tier, 0)
    groups = collections.defaultdict(list)
    for u in us:
        groups[(u.get("kind"), u.get("variant")) if isinstance(u, dict) else ("?", None)].append(u)
    picks = []
    for k, g in groups.items():
        n = len(g)
        idx = sorted({0, n // 3, (2 * n) // 3, n - 1}) if n > 4 else range(n)
        picks += [(k, g[i]) for i in idx]
    with multiprocessing.get_context("fork").Pool(16) as pool:
        ts = pool.map(one, [u for _, u in picks], chunksize=1)
    per = collections.defaultdict(list)
    for (k, u), t in zip(picks, ts):
        per[k].append(t)
    total = 0
    for k, g in sorted(groups.items(), key=lambda kv: str(kv[0])):
        avg = sum(per[k]) / len(per[k]); total += avg * len(g)
        print(f"{str(k):40s} units={len(g):4d} avg={avg:7.1f}s max={max(per[k]):7.1f}s  -> {avg * len(g):9.0f} core-s")
    print(f"estimate: {total:.0f} core-s = {total / 16 / 60:.1f} min on 16 cores")
