#!/bin/bash
# tools/refactor_eval.sh <patch> <checks...> : apply a behaviour-preserving refactoring to /repo, run checks (must stay silent), restore
patch="$1"; shift
cd /repo && git status --porcelain | grep -q . && { echo "repo dirty"; exit 2; }
git apply "$patch" || git apply --3way "$patch" || { echo "DOES NOT APPLY $patch"; exit 3; }
git reset -q
cd /verif
for c in "$@"; do
  out=$(./check $c 2>&1); rc=$?
  echo "$out" | grep -E "^VIOLATION" -A2 | head -9 | cut -c1-400
  echo "rc=$rc $(echo "$out" | tail -1 | sed -e 's/{.*}//' | cut -c1-120)"
done
git -C /repo checkout -- .
