"""writes MANIFEST.json from the table below (kept in one place so that it is always valid)"""
import json, os
ROOT = os.path.dirname(os.path.dirname(os.path.abspath(__file__)))
CHECKS = {}
exec(open(os.path.join(ROOT, "tools", "manifest_table.py")).read())
props = [json.loads(l)["id"] for l in open(os.path.join(ROOT, "properties.jsonl"))]
checks = []
for pid in props:
    c = CHECKS.get(pid)
    if not c:
        continue
    checks.append({
        "property_id": pid,
        "quick_cmd": f"./check {pid} --tier quick",
        "thorough_cmd": f"./check {pid} --tier thorough",
        "evidence_file": f"/verif/evidence/{pid}.json",
        "replay_cmd_template": f"./check {pid} --replay {{path}}",
        "engine": c["engine"],
        "level_claimed": {"category": c["level"], "text": c["text"], "design_ref": c["ref"]},
        "level_note": c["note"],
        "technique": c["technique"],
    })
na = [{"property_id": p, "reason": NOT_APPLICABLE.get(p, "check not built yet in this round; see DESIGN.md 6 for the planned decision procedure")} for p in props if p not in CHECKS]
m = {
    "version": 1,
    "setup_cmd": "/venv/bin/python -m vlib.selftest",
    "hooks": {
        "guard": "TPMSTREAM_VERIF",
        "enable": "no source hook is needed: byte accounting uses a counting iterator passed as `buffer`, decoder state is read by generator introspection, the type cache is reached through the classmethod's __func__; ./check exports TPMSTREAM_VERIF=1 which no source line reads",
        "baseline_off_cmd": "cd /repo && /venv/bin/python -m pytest -ra -q -p no:cacheprovider --timeout=900 --continue-on-collection-errors",
        "source_commits": [],
        "add_only": True,
    },
    "engines": ENGINES,
    "checks": checks,
    "notes": NOTES,
    "not_applicable": na,
}
json.dump(m, open(os.path.join(ROOT, "MANIFEST.json"), "w"), indent=1)
print(len(checks), "checks,", len(na), "not claimed")
