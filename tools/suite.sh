#!/bin/bash
# run the repository's own pinned suite (xdist for speed; same tests as BASELINE.json's cmd). $1 = repo dir (default /repo)
cd "${1:-/repo}" && /venv/bin/python -m pytest -q -p no:cacheprovider --timeout=900 -n 16 2>&1 | tail -3
