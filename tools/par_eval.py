#!/venv/bin/python
"""tools/par_eval.py [-j N] <patch>:<C01,C02,...> ...
Runs the named checks against scratch copies of /repo/src with one patch applied each (TPMSTREAM_SRC), several patches
in parallel, evidence and violations redirected to a scratch directory (VERIF_OUT).  /repo itself is not touched.
Prints one line per (patch, check): number of VIOLATION lines and the first one."""
import argparse, concurrent.futures as cf, json, os, shutil, subprocess, sys, tempfile
VERIF = os.path.dirname(os.path.dirname(os.path.abspath(__file__)))

def job(spec, tier, jobs):
    patch, checks = spec.rsplit(":", 1)
    d = tempfile.mkdtemp(prefix="par_eval_")
    try:
        subprocess.run(f"git -C /repo archive HEAD src | tar -x -C {d}", shell=True, check=True)
        r = subprocess.run(f"cd {d} && git init -q . && git apply {patch}", shell=True, capture_output=True, text=True)
        if r.returncode != 0:
            return [(patch, "*", "DOES NOT APPLY", r.stderr[-200:])]
        out = []
        env = dict(os.environ, TPMSTREAM_SRC=f"{d}/src", VERIF_OUT=f"{d}/out", VERIF_JOBS=str(jobs), VERIF_STOP_AT_FIRST=os.environ.get("VERIF_STOP_AT_FIRST", "1"))
        for c in checks.split(","):
            p = subprocess.run(["./check", c, "--tier", tier], cwd=VERIF, env=env, capture_output=True, text=True)
            lines = p.stdout.splitlines()
            v = [i for i, l in enumerate(lines) if l.startswith("VIOLATION")]
            first = " | ".join(x.strip() for x in lines[v[0] + 1 : v[0] + 3])[:300] if v else ""
            out.append((patch, c, len(v), first))
        return out
    finally:
        shutil.rmtree(d, ignore_errors=True)

if __name__ == "__main__":
    ap = argparse.ArgumentParser(); ap.add_argument("-j", type=int, default=4); ap.add_argument("--tier", default="quick"); ap.add_argument("specs", nargs="+")
    a = ap.parse_args()
    with cf.ThreadPoolExecutor(a.j) as ex:
        for res in ex.map(lambda s: job(s, a.tier, max(4, 16 // a.j)), a.specs):
            for patch, c, n, first in res:
                print(f"{patch.replace('/tmp/seed_out/', '').replace('/verif/seeded/', '').replace('/patch.diff', ''):14s} {c:4s} violations={n} {first}", flush=True)
