#!/bin/bash
# tools/seed_batch.sh "<dir>:<checks>" ...   evaluates seeds one after the other (they patch /repo)
for spec in "$@"; do
  d="${spec%%:*}"; c="${spec#*:}"
  /venv/bin/python /verif/tools/seed_eval.py "$d" --checks "$c" ${SEED_EVAL_ARGS} 2>&1 | /venv/bin/python -c "
import sys,json
try:
    d=json.load(sys.stdin)
except Exception as e:
    print('EVAL ERROR', e); sys.exit(0)
print(d['dir'], '| demo', d.get('demo_unchanged',{}).get('exit'), d.get('demo_patched',{}).get('exit'), '| suite', (d.get('suite') or {}).get('passed'), (d.get('suite') or {}).get('failed'), '| applies', d.get('applies'), '| detected_by', d['detected_by'])
for k,v in d['checks'].items(): print('    ',k,'violations',v['violations'],v['first'][:220])
"
done
