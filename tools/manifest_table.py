NOTES = "All checks run the real code of /repo/src (TPMSTREAM_SRC overrides) under /venv/bin/python; exhaustive enumeration of bounded spaces, no sampling: VERIF_SEED only rotates representatives inside equivalence classes and the dispatch order."
NOT_APPLICABLE = {}
ENGINES = [
    {"name": "sweep", "path": "vlib/props/c17.py, c20.py", "serves_properties": ["C17", "C20"], "kind_free_text": "engine E: exhaustive sweeps of finite domains (every table entry, every mask, every value of 8-bit words)"},
]
CHECKS = {
    "C17": dict(engine="sweep", level="exploration", ref="DESIGN.md 6 C17, 5.5",
        text="Every mask of all attribute types and every value of the 8-bit words is enumerated (exhaustive); 32-bit words are covered by every single-field pattern, walking ones/zeros, all values of narrow fields and seed-rotated words. Model-free oracle: disjointness, cover, accessor == (v & mask) >> ctz(mask), overlay of the pretty printer's bit rows == binary value.",
        note="Trusts Python's int arithmetic and the recognition of a bit row by its 0/1/. string of the word's width. 32-bit value space is not exhausted.",
        technique="exhaustive enumeration of a finite domain (masks, 8-bit values) + boundary enumeration for 32-bit words"),
    "C20": dict(engine="sweep", level="exploration", ref="DESIGN.md 6 C20, 3.1",
        text="All 117 command codes x 4 tables, every field of every structure/TPM2B/union, every selector value and every entry of the pinned snapshot are enumerated; the five coherence clauses are evaluated on the live tables and the live layout is diffed structurally against vlib/pinned/layout.json. The space is finite and covered completely.",
        note="Trusts vlib/pinned/layout.json (generated from the tree after the fix: commits; it is also the table source of the reference decoder used by C01-C13, so a wrong pin disagrees with the decoder's behaviour there).",
        technique="exhaustive enumeration of the (finite) layout tables against a pinned snapshot"),
}
