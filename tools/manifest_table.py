NOTES = "All checks run the real code of /repo/src (TPMSTREAM_SRC overrides) under /venv/bin/python; exhaustive enumeration of bounded spaces, no sampling: VERIF_SEED only rotates representatives inside equivalence classes and the dispatch order."
NOT_APPLICABLE = {}
ENGINES = [
    {"name": "sweep", "path": "vlib/props/c17.py, c20.py", "serves_properties": ["C17", "C20"], "kind_free_text": "engine E: exhaustive sweeps of finite domains (every table entry, every mask, every value of 8-bit words)"},
]
CHECKS = {
    "C17": dict(engine="sweep", level="exploration", ref="DESIGN.md 6 C17, 5.5",
        text="Every mask of all attribute types and every value of the 8-bit words is enumerated (exhaustive); 32-bit words are covered by every single-field pattern, walking ones/zeros, all values of narrow fields and seed-rotated words. Model-free oracle: disjointness, cover, accessor == (v & mask) >> ctz(mask), overlay of the pretty printer's bit rows == binary value.",
        note="Trusts Python's int arithmetic and the recognition of a bit row by its 0/1/. string of the word's width. 32-bit value space is not exhausted.",
        technique="exhaustive enumeration of a finite domain (masks, 8-bit values) + boundary enumeration for 32-bit words"),
    "C20": dict(engine="sweep", level="exploration", ref="DESIGN.md 6 C20, 3.1",
        text="All 117 command codes x 4 tables, every field of every structure/TPM2B/union, every selector value and every entry of the pinned snapshot are enumerated; the five coherence clauses are evaluated on the live tables and the live layout is diffed structurally against vlib/pinned/layout.json. The space is finite and covered completely.",
        note="Trusts vlib/pinned/layout.json (generated from the tree after the fix: commits; it is also the table source of the reference decoder used by C01-C13, so a wrong pin disagrees with the decoder's behaviour there).",
        technique="exhaustive enumeration of the (finite) layout tables against a pinned snapshot"),
}
ENGINES.append({"name": "choice", "path": "vlib/engines/choice.py", "serves_properties": ["C01", "C02", "C11"], "kind_free_text": "engine A: stateless deviation-bounded exploration of the choice tree of a generator of well-formed encodings; every execution runs the real decoder and is compared with a reference model or a model-free invariant"})
_A = "Stateless model checking of the real decoder: every choice vector with at most k non-default choices of the generator of well-formed encodings is executed (k iterated per root up to an execution budget; every one of the 231 non-union types, every primitive, every command code as command / response / two-message stream, sessions, parameter encryption, failed responses). "
CHECKS["C01"] = dict(engine="choice", level="model_checking", ref="DESIGN.md 6 C01, 5.1, 4.2",
    text=_A + "Oracle: reference decoder over the pinned layout (events equal in number, path, declared type, value, value class; strict decode succeeds; all bytes pulled); the generator's intent is checked against the reference on every execution before the implementation is consulted.",
    note="Bounds: deviations <= k (2..3 quick, 3..4 thorough for structures; 1 / 2 for frames), counts and buffer sizes in {0,1,2}, <= 3 sessions. Trusts the reference decoder and the pin; both are tied to the generator by the self-check.",
    technique="stateless deviation-bounded exploration of the real decoder against a reference model (explicit enumeration of choice vectors)")
CHECKS["C02"] = dict(engine="choice", level="model_checking", ref="DESIGN.md 6 C02",
    text=_A + "Oracle (model-free): join(Binary.unmarshal(events)) == input, every primitive event re-encodes to the input slice at its accumulated offset with the pinned width, structural and warning events to nothing; in warn mode additionally every out-of-range substitution of every constrained leaf, kept when only value problems are reported.",
    note="Same bounds as C01; warn-mode part over the default encodings (thorough: <= 1 deviation, pairs of corruptions for defaults).",
    technique="stateless deviation-bounded exploration + exhaustive single-fault enumeration, round-trip oracle on the real code")
CHECKS["C11"] = dict(engine="choice", level="model_checking", ref="DESIGN.md 6 C11",
    text=_A + "Oracle (relational, two paths through the real code): decoder's returned object == events_to_obj(events); obj_to_events of either == decoded events (length, path, type, value, value class); Canonical(bytes) and Canonical(obj) agree; re-encoding the object gives the input.",
    note="Same bounds as C01 without streams (C09 covers events_to_objs). Equality is Python ==.",
    technique="stateless deviation-bounded exploration of the real code with a differential (round-trip) oracle")
ENGINES.append({"name": "faultspace", "path": "vlib/faultspace.py, vlib/faults.py, vlib/oracle.py", "serves_properties": ["C03", "C04", "C05", "C13"], "kind_free_text": "base cases from engine A x complete fault families (size perturbation, value corruption, cut points, suffixes, byte substitution), each run of the real decoder compared with the strict reference decoder"})
_F = "Base cases: every non-union type in a minimal and a rich variant, every command code as command (0/1/2 sessions, decrypt session), response (plain, failed, session, encrypted) and stream (pair, pair with sessions, command only); quick: 0 deviations, thorough: <= 1 deviation around each. "
CHECKS["C03"] = dict(engine="faultspace", level="fault_enumeration", ref="DESIGN.md 6 C03, 4.2",
    text=_F + "Every size-like field of every base case is perturbed by +-1, +-2, set to 0, 1, the width maximum and the values reaching exactly / just past the end of the input (thorough: ordered pairs of fields). The strict run of the real decoder must agree with the reference decoder in outcome class, constraint path, limit, bytes counted, violator, exceeded-by / value and in the events emitted before. The run fails its own sanity check unless anticipated, exceeded, subceeded, depleted and accepted outcomes all occur.",
    note="Trusts the reference decoder's reading of 'earliest decidable' (DESIGN 4.2, D1-D4). The engine-B part (all byte strings over small alphabets for nested synthetic TPM2B/list types) is served by C06's check.",
    technique="exhaustive fault enumeration over bounded base cases, real decoder vs reference model")
CHECKS["C04"] = dict(engine="faultspace", level="fault_enumeration", ref="DESIGN.md 6 C04",
    text=_F + "Every constrained primitive field is replaced by every value just outside each interval of its allowed set, 0, the width limits and a far value (must be rejected with the first offending field, its type, value and allowed set, no event for it) and by every boundary / member / representative inside (must be accepted or fail exactly as the reference says when a selector changes the layout); thorough: ordered pairs of corrupted fields.",
    note="Allowed sets come from the pin. 32-bit sets are covered at interval boundaries and representatives.",
    technique="exhaustive fault enumeration (boundary values of every constrained field), real decoder vs reference model")
CHECKS["C05"] = dict(engine="faultspace", level="fault_enumeration", ref="DESIGN.md 6 C05",
    text=_F + "Every cut point 0..len-1 of every base case (the empty input included) and three appended suffixes (1 byte, 2 bytes, a whole further message). Oracle: reference decoder: depleted after exactly the complete fields' events, superfluous with exactly the surplus, command code of the last decoded command, clean end of a stream only at a message boundary.",
    note="D5 pins which command code the errors carry.",
    technique="exhaustive crash-point (truncation) and suffix enumeration, real decoder vs reference model")
CHECKS["C13"] = dict(engine="faultspace", level="fault_enumeration", ref="DESIGN.md 6 C13",
    text=_F + "All strict rejections of the size, value and byte-substitution fault families, plus every fault moved to the end of the input (cut 0..2 bytes after the faulty field). Oracle: bytes(error.bytes_remaining) == input[reference offset:], and model-free: emitted field widths + consumed offending bytes + remaining == input length, remaining is a suffix.",
    note="The reference decoder defines 'consumed'; the accounting identity is independent of it.",
    technique="exhaustive fault enumeration incl. end-of-input placements, reference offsets + model-free byte accounting")
ENGINES[-1]["serves_properties"] += ["C06", "C07"]
CHECKS["C06"] = dict(engine="faultspace", level="fault_enumeration", ref="DESIGN.md 6 C06",
    text=_F + "Byte-substitution closure (every offset x a stated substitute alphabet), every cut and suffix, both encryption flags for responses; cross-type closure: every default encoding decoded as every non-union type, as Command, as a stream and as Response(cc, flag) for every command code. Oracle (no model): the outcome is completion or one of the documented error classes, bytes pulled <= bytes available, events bounded linearly in the input (non-termination guard).",
    note="Arbitrary byte strings are represented by the mutation closure of well-formed messages and by cross-type decoding, not by all strings up to a length; a Response is only decoded with a command code of the table. Known findings F8, F8b, F9 (known_findings.json).",
    technique="exhaustive enumeration of single-byte mutations, truncations and cross-type decodes of bounded base cases; totality oracle")
CHECKS["C07"] = dict(engine="faultspace", level="fault_enumeration", ref="DESIGN.md 6 C07",
    text=_F + "Every base case and every size / value / cut / suffix / byte-substitution fault on it is decoded once in strict and once in warn mode by the real decoder. Relational oracle: events before the first warning == events before the raise (plus the offending event for a value problem), first warning wraps the same class with the same details, strict accepts <=> warn mode emits no warning (then identical events).",
    note="No reference model is involved. Strict-mode internal errors (F8/F9) are skipped here and judged by C06.",
    technique="exhaustive fault enumeration with a relational (two-run) oracle on the real code")
ENGINES[-1]["serves_properties"] += ["C08"]
CHECKS["C08"] = dict(engine="faultspace", level="fault_enumeration", ref="DESIGN.md 6 C08, 4.3, 4.4",
    text=_F + "Every base case and every size / value / cut / suffix / byte-substitution fault on it (thorough: ordered pairs of size faults and of value faults) is decoded in warn mode by the real decoder. Oracles: no exception escapes except ValueConstraintViolatedError for an unknown command code / selector without member; model-free tiling of the input by the observed events (field bytes are the next input bytes, after Exceeded/Subceeded the cursor is the end the violated size field declares, surplus listed exactly, nothing left over); value-only inputs equal the lenient reference interpretation with one warning directly after each offending event.",
    note="After a Depleted warning up to 7 bytes of the incomplete last field are tolerated as unaccounted. Known findings F8w, F8bw, F9w, F19 (narrow fingerprints: exception class + raising function).",
    technique="exhaustive fault enumeration (single and double faults) with a model-free tiling invariant and a lenient reference model")
ENGINES.append({"name": "sched", "path": "vlib/engines/sched.py, vlib/props/c12.py", "serves_properties": ["C12"], "kind_free_text": "engine D: preemption-bounded depth-first exploration of all interleavings of step-wise decoders (generators advanced one event at a time), plus all operation histories up to a depth"})
ENGINES[1]["serves_properties"] += ["C09"]
ENGINES[2]["serves_properties"] += ["C10"]
CHECKS["C09"] = dict(engine="choice", level="model_checking", ref="DESIGN.md 6 C09",
    text="Explicit enumeration of all histories (sequences of 1..n command/response pairs, with and without the last response) over a message-pair alphabet that contains the default pair of every command code and, for twelve core codes, pairs with sessions, two sessions, failed responses, response encryption, decrypt+encrypt; quick: n=2 (full x core, core x full), thorough: n=2 full x full and n=3 over the core alphabet. Every sequence is decoded as a stream by the real decoder and message by message; the command code and encryption flag used for each response come from the reference decoder. Oracle: stream events == concatenation; events_to_objs yields one object per message equal to the per-message conversion.",
    note="Breadth over pairs of messages; the carried state (command code, encryption request) has no longer memory than one message, which n=2/3 covers. Trusts the reference decoder for the (cc, flag) pairing.",
    technique="explicit-state enumeration of all operation histories up to depth n on the real decoder, differential oracle")
CHECKS["C10"] = dict(engine="faultspace", level="fault_enumeration", ref="DESIGN.md 6 C10",
    text=_F + "Every base case is decoded step-wise from a counting byte source and again from every proper prefix (every cut point). Oracle: at every yielded event bytes pulled minus the (pinned) widths of the fields emitted so far is 1, or 0 once the source is exhausted; events(prefix) is a prefix of events(whole); exactly the fields complete in the prefix are emitted before the depleted error; no proper prefix is accepted; whole input and an interior prefix give identical results from bytes, bytearray, list, tuple, iterator and generator sources in both modes.",
    note="Look-ahead is observed through the iterator protocol only (no hook).",
    technique="exhaustive crash-point enumeration (every cut of every base case) with a step-wise pull-count oracle")
CHECKS["C12"] = dict(engine="sched", level="model_checking", ref="DESIGN.md 6 C12, 5.4",
    text="The harness is the scheduler: n step-wise decoders (real generators) are advanced one event at a time; all interleavings with at most p preemptions are explored depth-first and run to completion (quick: all ordered pairs of 6 messages at p<=1, the colliding pair at p<=2, a triple at p<=1; thorough: pairs of 8 messages at p<=2/3, triples at p<=2). In addition every history of <= 3 (thorough 4) operations over decode / warn-mode decode / events_to_obj(s) / obj_to_events / Canonical on the message alphabet. The alphabet collides on the one piece of shared state (the synthesized encrypted-parameter types): encrypted parameter areas of different commands, the same message twice, plain messages, streams. Oracle: every result == (Python equality, i.e. same synthesized classes) the first execution of the same operation in the same history, normalised results identical across histories; failing schedules are replayed to confirm determinism.",
    note="Granularity of a step is one yielded event (finer interleaving inside one next() cannot occur in a single-threaded process). The cache is reset between histories, never inside.",
    technique="preemption-bounded exhaustive exploration of interleavings of the real generators + exhaustive operation histories")
ENGINES[0]["serves_properties"] += ["C16", "C18"]
ENGINES[0]["path"] = "vlib/props/c16.py, c17.py, c18.py, c20.py"
ENGINES[1]["serves_properties"] += ["C14"]
CHECKS["C14"] = dict(engine="choice", level="model_checking", ref="DESIGN.md 6 C14, 4.5",
    text="Event streams of the real decoder - strict decodes of every choice vector with <= k deviations per root (engine A) and warn-mode decodes of every size / value / cut / suffix fault on every base case - are rendered by both real printers. Oracle: row model (vlib/ref/rows.py): one row per structure / primitive event, one row per byte buffer holding all its bytes, one row per warning, bit rows for attribute words that are not list elements, event order, indentation = path depth, type / name / hex / value columns; the hex column concatenated equals the bytes of the decoded fields (the input when well-formed); the events printer prints one line per event with type, path and value. Neither printer may raise.",
    note="D11 / D13 tolerances (warning next to a byte buffer; optional row for a non-byte list parent). Strict-mode structure roots at k<=1..2 (quick), frames k<=1.",
    technique="stateless deviation-bounded exploration + exhaustive fault enumeration feeding the real printers, compared with a row model")
CHECKS["C16"] = dict(engine="sweep", level="exploration", ref="DESIGN.md 6 C16, 5.5",
    text="All 102 primitive types. Per value: int(), ==, hash, ordering, byte form (big-endian two's complement of the pinned width), validity (pinned set), str() and format() against the expected text (member name; range name + zero-padded hex offset). All values of 8-bit types (thorough: also all 65536 values of every 16-bit type); for wider types every interval end point +-2, members +-1, width limits, powers of two +-1, seed-rotated interior values. 19 binary operators x 4 operand orders x boundary pairs against plain int (type of the result included).",
    note="exhaustive only for 8-bit (thorough: 16-bit) types; 32/64-bit domains at boundaries and representatives. Shift counts <= 64, exponents <= 8.",
    technique="exhaustive sweep of small value domains + boundary enumeration, oracle from the pinned layout")
CHECKS["C18"] = dict(engine="sweep", level="exploration", ref="DESIGN.md 6 C18",
    text="Every low-12-bit value with bit 7 or bit 8 set, plus zero (3073 codes), alone, with single reserved high bits (quick: bits 12, 16, 31; thorough: each of 12..31) and with all reserved bits set. Oracle: format rules of the statement + name tables transcribed from TPM 2.0 Part 2 6.6.3 (vlib/pinned/tpm_rc.json): str() and format(); the bit rows overlay to the 32-bit value with no bit twice, and carry the same classification (parameter / session / handle number row with the same N, vendor bit, severity, code number and name).",
    note="Unnamed numbers are expected as 'None' (pinned).",
    technique="exhaustive sweep of the 12-bit code space against independently transcribed tables")
