#!/venv/bin/python
"""tools/seed_keep.py <seed dir with patch.diff demo.py notes.md eval.json> <name> <property>  -> /verif/seeded/<name>/"""
import json, os, shutil, sys
src, name, prop = sys.argv[1:4]
dst = os.path.join(os.path.dirname(os.path.dirname(os.path.abspath(__file__))), "seeded", name)
os.makedirs(dst, exist_ok=True)
for f in ("patch.diff", "demo.py", "notes.md"):
    if os.path.exists(os.path.join(src, f)):
        shutil.copy(os.path.join(src, f), os.path.join(dst, f))
ev = json.load(open(os.path.join(src, "eval.json")))
notes = open(os.path.join(src, "notes.md")).read() if os.path.exists(os.path.join(src, "notes.md")) else ""
meta = {
    "breaks_property": prop,
    "origin": "independent sub-agent given only the property text and a scratch worktree",
    "needs_to_manifest": notes.strip()[:1500],
    "confirmed": {
        "demo_exit_on_unchanged_tree": ev.get("demo_unchanged", {}).get("exit"),
        "demo_exit_with_change": ev.get("demo_patched", {}).get("exit"),
        "repository_suite_with_change": ev.get("suite"),
        "how": "tools/seed_eval.py: scratch worktree of /repo HEAD under /tmp (removed afterwards): demo on unchanged tree, git apply, demo again, pytest suite; then git -C /repo apply, ./check <ids>, git -C /repo checkout -- .",
    },
    "checks_run": ev.get("checks"),
    "checks_run_before_strengthening": ev.get("first_run_checks"),
    "detected_by": ev.get("detected_by"),
}
if len(sys.argv) > 4:
    meta["remark"] = sys.argv[4]
json.dump(meta, open(os.path.join(dst, "meta.json"), "w"), indent=1)
print(dst, meta["detected_by"])
